"""Wire-shape extraction: turn the encoders / decoders of kafkacodec.py into
grammar terms with leaf bindings, by symbolic evaluation of the byte-string
accumulator (encoders) or of the cursor-threaded reads (decoders).

Terms (tuples):
  ('P', TYPE, bind)            TYPE in INT8 UINT8 INT16 UINT16 INT32 UINT32 INT64
  ('STR', bind)                INT16 length + bytes (write_short_* / read_short_*)
  ('BYTES', bind)              INT32 length + bytes (write_int_string / read_int_string)
  ('RAW', bind)                bytes appended as they are
  ('SIZED', bind)              INT32 len(X) followed by RAW X
  ('ARRAY', over, [terms])     INT32 count then that many elements
  ('ALT', [(cond, [terms])])   alternatives selected by a condition
  ('OPAQUE', text)             construct the extractor does not understand (always a mismatch)
Bindings are canonical texts: loop variables are replaced by provenance names
(<topic>, <partition>, <payload>, <each X>), so renaming locals is invisible.
"""
import ast
import re

from .model import AnalysisError, unparse

CODES = {"b": "INT8", "B": "UINT8", "h": "INT16", "H": "UINT16", "i": "INT32", "I": "UINT32", "l": "INT32", "L": "UINT32",
         "q": "INT64", "Q": "UINT64"}
WRITERS = {"write_short_ascii": "STR", "write_short_text": "STR", "write_short_bytes": "STR", "write_int_string": "BYTES"}
READERS = {"read_short_ascii": "STR", "read_short_text": "STR", "read_short_bytes": "STR", "read_int_string": "BYTES"}


def norm(e):
    return " ".join(unparse(e).split()) if isinstance(e, ast.AST) else str(e)


def parse_fmt(fmt):
    """'>hhi' -> (endian, [codes]); repeat counts expanded; None if odd."""
    endian = ""
    if fmt and fmt[0] in "<>!=@":
        endian, fmt = fmt[0], fmt[1:]
    out = []
    for cnt, ch in re.findall(r"(\d*)([a-zA-Z?])", fmt):
        if ch not in CODES:
            return endian, None
        out.extend([ch] * (int(cnt) if cnt else 1))
    return endian, out


class Env(object):
    def __init__(self, prog, func, subst=None):
        self.prog, self.func = prog, func
        self.subst = dict(subst or {})  # local name -> canonical text
        self.values = {}  # local name -> list of terms (bytes-valued locals)
        self.lists = {}  # local list accumulators -> list of terms
        self.assigned = {}  # name -> [value exprs] (plain assignments)
        self.endians = set()
        self.scal = {}  # scalar locals -> [(cond or None, canonical text)] (conditional values after an if)
        self.pairs = {}  # local bound to a (key, value) item of a grouped mapping -> (key text, value text)

    def canon(self, e):
        """canonical binding text of an expression"""
        if isinstance(e, ast.AST):
            m = dict(self.subst)
            for k, vals in self.scal.items():
                if len(vals) == 1 and k not in m:
                    m[k] = vals[0][1]
            e2 = _Subst(m).visit(_copy(e))
            return norm(e2)
        return str(e)


def _copy(e):
    return ast.parse(unparse(e), mode="eval").body


class _Subst(ast.NodeTransformer):
    def __init__(self, m):
        self.m = m

    def visit_Name(self, n):
        if n.id in self.m:
            return ast.Name(id=self.m[n.id], ctx=ast.Load())
        return n


def _const(env, e):
    from .rules.util import const_value

    return const_value(env.prog, env.func, e)


def _expanded(env, e):
    from .rules.util import expand

    try:
        return expand(env.prog, env.func, e, calls=True)
    except Exception:  # noqa: BLE001
        return e


def _fmt_value(env, f):
    """the struct format a format argument denotes: a literal, a module / class constant, or None"""
    if isinstance(f, ast.Constant) and isinstance(f.value, str):
        return f.value
    v = _const(env, f)
    return v if isinstance(v, str) else None


def _is_module_or_class_const(env, a):
    from .rules.util import module_const

    if isinstance(a, ast.Name):
        return module_const(env.func, a.id) is not None and a.id not in env.func.params
    return False


def _struct_object(env, e):
    """the `struct.Struct(fmt)` call an expression denotes: written in place, a local bound once, a module-level
    constant, or a class-level constant reached through cls / self / the class name; else the expanded expression."""
    from .rules.util import class_const, module_const

    obj = _expanded(env, e)

    def is_struct(x):
        return isinstance(x, ast.Call) and norm(x.func) in ("struct.Struct", "Struct") and x.args
    if is_struct(obj):
        return obj
    if isinstance(obj, ast.Name):
        v = module_const(env.func, obj.id)
        if is_struct(v):
            return v
    if isinstance(obj, ast.Attribute) and isinstance(obj.value, ast.Name) and (
            obj.value.id in ("self", "cls") or (env.func.cls is not None and obj.value.id == env.func.cls.name)):
        v = class_const(env.prog, env.func, obj.attr)
        if is_struct(v):
            return v
    return obj


def _pack_call(env, e):
    """(format expr, [value args]) when `e` packs with the struct module: struct.pack(fmt, ...), a precompiled
    `struct.Struct(fmt)` object's .pack(...), or a name bound once to such a bound method; else None."""
    if not isinstance(e, ast.Call):
        return None
    fn = norm(e.func)
    if fn in ("struct.pack", "pack") and e.args:
        return e.args[0], list(e.args[1:])
    target = e.func
    if isinstance(target, ast.Attribute) and target.attr == "pack":
        obj = _struct_object(env, target.value)
        if isinstance(obj, ast.Call) and norm(obj.func) in ("struct.Struct", "Struct") and obj.args:
            return obj.args[0], list(e.args)
    if isinstance(target, ast.Name):
        obj = _expanded(env, target)
        if isinstance(obj, ast.Attribute) and obj.attr == "pack" and isinstance(obj.value, ast.Call) and norm(obj.value.func) in (
                "struct.Struct", "Struct") and obj.value.args:
            return obj.value.args[0], list(e.args)
    return None


# ---------------------------------------------------------------- encoders
def encoder_terms(prog, func, subst=None, depth=0, pairs=None):
    """Return (terms, env) for an encoder function."""
    env = Env(prog, func, subst)
    env.pairs = dict(pairs or {})
    acc = {}
    terms = _enc_block(env, func.body, acc)
    return normalise(terms), env


def _enc_block(env, stmts, acc):
    """acc: name -> list of terms for bytes accumulators. Returns the terms of
    `return` if the block returns, else None; mutates acc."""
    ret = None
    for st in stmts:
        if isinstance(st, ast.Expr) and isinstance(st.value, ast.Constant):
            continue
        if isinstance(st, (ast.Assert, ast.Pass)):
            continue
        if isinstance(st, ast.Assign) and len(st.targets) == 1 and isinstance(st.targets[0], (ast.Tuple, ast.List)) and isinstance(
                st.value, ast.Name) and st.value.id in env.pairs and len(st.targets[0].elts) == 2 and all(isinstance(e, ast.Name) for e in st.targets[0].elts):
            # (key, value) = item   where item came from `for item in <mapping>.items()`
            env.subst[st.targets[0].elts[0].id], env.subst[st.targets[0].elts[1].id] = env.pairs[st.value.id]
            continue
        if isinstance(st, ast.Assign) and len(st.targets) == 1 and isinstance(st.targets[0], (ast.Tuple, ast.List)) and isinstance(
                st.value, (ast.Tuple, ast.List)) and len(st.targets[0].elts) == len(st.value.elts) and all(isinstance(e, ast.Name) for e in st.targets[0].elts):
            # a, b = (x, y): element-wise scalar temporaries (right-hand sides are evaluated before any target is bound)
            vals = [env.canon(v) for v in st.value.elts]
            for e, v, c in zip(st.targets[0].elts, st.value.elts, vals):
                if _scalar_value(v):
                    env.scal[e.id] = [(None, "(%s)" % c if isinstance(v, (ast.BinOp, ast.BoolOp, ast.Compare, ast.IfExp)) else c)]
            continue
        if isinstance(st, ast.Assign) and len(st.targets) == 1:
            t = st.targets[0]
            if isinstance(t, ast.Name) and t.id in env.subst and not (isinstance(st.value, ast.Name) and st.value.id == t.id):
                # a provenance-named local (loop element, grouped mapping) is re-bound: whatever is encoded from it
                # afterwards is no longer "the caller's element as given"
                env.subst[t.id] = "<rebound %s = %s>" % (t.id, env.canon(st.value))
                continue
            if isinstance(t, ast.Name) and isinstance(st.value, ast.Name) and st.value.id in acc and env.lists.get(st.value.id):
                # another name for a list accumulator (`topics = chunks`): the same list object
                acc[t.id] = acc[st.value.id]
                env.lists[t.id] = True
                continue
            if isinstance(t, ast.Name):
                env.assigned.setdefault(t.id, []).append(st.value)
                v = _enc_expr(env, st.value, acc, allow_none=True)
                if v is not None:
                    acc[t.id] = v
                elif isinstance(st.value, (ast.ListComp, ast.GeneratorExp)) and _comp_loop(env, st.value, acc) is not None:
                    acc[t.id] = _comp_loop(env, st.value, acc)
                    env.lists[t.id] = True
                elif isinstance(st.value, ast.List):
                    items = []
                    for e in st.value.elts:
                        items += _enc_expr(env, e, acc) or [("OPAQUE", norm(e))]
                    acc[t.id] = items
                    env.lists[t.id] = True
                elif isinstance(st.value, ast.Call) and norm(st.value.func) == "group_by_topic_and_partition":
                    env.subst[t.id] = "<grouped %s>" % env.canon(st.value.args[0])
                elif isinstance(st.value, ast.IfExp) and isinstance(st.value.body, ast.List) and not st.value.body.elts:
                    # payloads = [] if payloads is None else payloads
                    pass
                elif _none_default(st.value) is not None:
                    env.scal[t.id] = [(None, env.canon(_none_default(st.value)))]
                elif _scalar_value(st.value):
                    # a scalar temporary: bindings show where the value comes from, not the name of the local
                    env.scal[t.id] = [(None, "(%s)" % env.canon(st.value) if isinstance(st.value, (ast.BinOp, ast.BoolOp, ast.Compare, ast.IfExp)) else env.canon(st.value))]
                continue
            continue
        if isinstance(st, ast.AugAssign) and isinstance(st.target, ast.Name) and isinstance(st.op, ast.Add):
            v = _enc_expr(env, st.value, acc)
            acc.setdefault(st.target.id, []).extend(v if v is not None else [("OPAQUE", norm(st.value))])
            continue
        if isinstance(st, ast.Expr) and isinstance(st.value, ast.Call) and isinstance(st.value.func, ast.Attribute) and \
                st.value.func.attr == "append" and isinstance(st.value.func.value, ast.Name) and st.value.func.value.id in acc:
            v = _enc_expr(env, st.value.args[0], acc)
            acc[st.value.func.value.id].extend(v if v is not None else [("OPAQUE", norm(st.value.args[0]))])
            continue
        if isinstance(st, ast.Expr) and isinstance(st.value, ast.Call) and isinstance(st.value.func, ast.Attribute) and \
                st.value.func.attr == "extend" and isinstance(st.value.func.value, ast.Name) and st.value.func.value.id in acc and st.value.args:
            a0 = st.value.args[0]
            v = None
            if isinstance(a0, (ast.ListComp, ast.GeneratorExp)):
                v = _comp_loop(env, a0, acc)
            elif isinstance(a0, (ast.List, ast.Tuple)):
                v = []
                for x in a0.elts:
                    v += _enc_expr(env, x, acc) or [("OPAQUE", norm(x))]
            acc[st.value.func.value.id].extend(v if v is not None else [("OPAQUE", norm(st.value))])
            continue
        if isinstance(st, ast.For):
            sub = dict(env.subst)
            _bind_loop(env, st)
            before = {k: len(v) for k, v in acc.items()}
            inner = {k: [] for k in acc}
            saved = {k: acc[k] for k in acc}
            for k in acc:
                acc[k] = inner[k]
            _enc_block(env, st.body, acc)
            bodies = {k: acc[k] for k in saved}
            for k in saved:
                acc[k] = saved[k]
                if bodies[k]:
                    acc[k].append(("LOOP", env.canon(st.iter), bodies[k]))
            env.subst = sub
            continue
        if isinstance(st, ast.If):
            alts = []
            chain = st
            other = {}
            scal0 = {k: list(v) for k, v in env.scal.items()}
            arm_scal = []
            while True:
                a2 = {k: [] for k in acc}
                loc = dict(acc)
                for k in acc:
                    loc[k] = a2[k]
                env.scal = {k: list(v) for k, v in scal0.items()}
                cond_text = env.canon(chain.test)
                r = _enc_block(env, chain.body, loc)
                arm_scal.append((cond_text, env.scal, r is not None or _leaves(chain.body)))
                new_names = {k: v for k, v in loc.items() if k not in acc}
                alts.append((cond_text, a2, r, new_names))
                if len(chain.orelse) == 1 and isinstance(chain.orelse[0], ast.If):
                    chain = chain.orelse[0]
                    continue
                a3 = {k: [] for k in acc}
                loc = dict(acc)
                for k in acc:
                    loc[k] = a3[k]
                env.scal = {k: list(v) for k, v in scal0.items()}
                r = _enc_block(env, chain.orelse, loc) if chain.orelse else None
                arm_scal.append(("else", env.scal, r is not None or _leaves(chain.orelse)))
                new_names = {k: v for k, v in loc.items() if k not in acc}
                alts.append(("else", a3, r, new_names))
                break
            # merge scalar locals over the arms that fall through
            live = [(c, sc) for c, sc, leaves in arm_scal if not leaves]
            merged = {}
            for k in set().union(*[set(sc) for c, sc in live]) if live else set():
                vals = [(c, sc.get(k)) for c, sc in live]
                if all(v == vals[0][1] for c, v in vals):
                    if vals[0][1] is not None:
                        merged[k] = vals[0][1]
                elif all(v is not None and len(v) == 1 for c, v in vals):
                    merged[k] = [(c, v[0][1]) for c, v in vals]
                else:
                    merged[k] = [(None, "<conditional %s>" % k)]
            env.scal = merged
            for k in list(acc):
                if any(a[1][k] for a in alts):
                    acc[k].append(("ALT", [(c, a[k]) for c, a, r, nn in alts]))
            # names first assigned inside the arms (msg = ...): ALT-valued
            names = set()
            for c, a, r, nn in alts:
                names |= set(nn)
            for nme in names:
                acc[nme] = [("ALT", [(c, nn.get(nme, [])) for c, a, r, nn in alts])]
            if any(r is not None for c, a, r, nn in alts):
                ret = [("ALT", [(c, r or []) for c, a, r, nn in alts])]
            continue
        if isinstance(st, ast.Return):
            v = _enc_expr(env, st.value, acc)
            return v if v is not None else [("OPAQUE", norm(st.value))]
        if isinstance(st, ast.Raise):
            return None
        # anything else is ignored unless it touches an accumulator
        names = {n.id for n in ast.walk(st) if isinstance(n, ast.Name)}
        if names & set(acc):
            for k in names & set(acc):
                acc[k].append(("OPAQUE", norm(st)))
    return ret


def _none_default(e):
    """X for `X if X is not None else []` / `[] if X is None else X` / `X or []` (a missing list defaults to empty)"""
    if isinstance(e, ast.IfExp) and isinstance(e.test, ast.Compare) and len(e.test.ops) == 1 and isinstance(e.test.comparators[0], ast.Constant) and \
            e.test.comparators[0].value is None and isinstance(e.test.left, ast.Name):
        x = e.test.left.id
        if isinstance(e.test.ops[0], (ast.IsNot, ast.NotEq)):
            keep, dflt = e.body, e.orelse
        else:
            keep, dflt = e.orelse, e.body
        if isinstance(keep, ast.Name) and keep.id == x and isinstance(dflt, (ast.List, ast.Tuple)) and not dflt.elts:
            return keep
    if isinstance(e, ast.BoolOp) and isinstance(e.op, ast.Or) and len(e.values) == 2 and isinstance(e.values[0], ast.Name) and isinstance(
            e.values[1], (ast.List, ast.Tuple)) and not e.values[1].elts:
        return e.values[0]
    return None


def _scalar_value(e):
    if isinstance(e, (ast.List, ast.Dict, ast.Set, ast.ListComp, ast.DictComp, ast.GeneratorExp, ast.Lambda)):
        return False
    if isinstance(e, ast.Constant) and isinstance(e.value, (bytes, str)):
        return False
    return True


def _leaves(stmts):
    return bool(stmts) and isinstance(stmts[-1], (ast.Return, ast.Raise, ast.Continue, ast.Break))


def _comp_loop(env, comp, acc):
    """terms of `b"".join(E for v in S)` / `[E for v in S]`: a LOOP over S of the terms of E"""
    if len(comp.generators) != 1 or comp.generators[0].ifs:
        return None
    g = comp.generators[0]
    outer = dict(env.subst)
    text = env.canon(g.iter)
    _bind_loop(env, ast.For(target=g.target, iter=g.iter, body=[], orelse=[]))
    inner = _enc_expr(env, comp.elt, acc)
    env.subst = outer
    if inner is None:
        return None
    return [("LOOP", text, inner)]


def _bind_loop(env, st):
    it = env.canon(st.iter)
    tgt = st.target
    if it.startswith("<grouped ") and it.endswith(">.items()") and isinstance(tgt, ast.Tuple):
        env.subst[tgt.elts[0].id] = "<topic>"
        env.subst[tgt.elts[1].id] = "<bytopic %s" % it[9:-9] + ">"
    elif it.startswith("<bytopic ") and it.endswith(">.items()") and isinstance(tgt, ast.Tuple):
        env.subst[tgt.elts[0].id] = "<partition>"
        env.subst[tgt.elts[1].id] = "<payload>"
    elif it.startswith("<bytopic ") and it.endswith(">") and isinstance(tgt, ast.Name):
        env.subst[tgt.id] = "<partition>"
    elif it.endswith(".items()") and isinstance(tgt, ast.Tuple):
        env.subst[tgt.elts[0].id] = "<key %s>" % it[:-8]
        env.subst[tgt.elts[1].id] = "<value %s>" % it[:-8]
    elif isinstance(tgt, ast.Name) and it.endswith(".items()"):
        # the item is kept whole and taken apart later (`for item in m.items(): k, v = item`)
        if it.startswith("<grouped "):
            env.pairs[tgt.id] = ("<topic>", "<bytopic %s" % it[9:-9] + ">")
        elif it.startswith("<bytopic "):
            env.pairs[tgt.id] = ("<partition>", "<payload>")
        else:
            env.pairs[tgt.id] = ("<key %s>" % it[:-8], "<value %s>" % it[:-8])
        env.subst[tgt.id] = "<each %s>" % it
    elif isinstance(tgt, ast.Name):
        env.subst[tgt.id] = "<each %s>" % it


def _list_terms(env, a, acc):
    """terms of the concatenation of a list of byte strings: an accumulator list, a literal, a comprehension,
    `list(x)`, or `x + y` of those; None when it is not one"""
    if isinstance(a, ast.Name) and a.id in acc:
        return list(acc[a.id])
    if isinstance(a, (ast.ListComp, ast.GeneratorExp)):
        return _comp_loop(env, a, acc)
    if isinstance(a, (ast.List, ast.Tuple)):
        items = []
        for x in a.elts:
            if isinstance(x, ast.Starred):
                sub = _list_terms(env, x.value, acc)
                items += sub if sub is not None else [("OPAQUE", norm(x))]
            else:
                items += _enc_expr(env, x, acc) or [("OPAQUE", norm(x))]
        return items
    if isinstance(a, ast.Call) and norm(a.func) in ("list", "tuple") and len(a.args) == 1:
        return _list_terms(env, a.args[0], acc)
    if isinstance(a, ast.BinOp) and isinstance(a.op, ast.Add):
        l, r_ = _list_terms(env, a.left, acc), _list_terms(env, a.right, acc)
        if l is None or r_ is None:
            return None
        return l + r_
    return None


def _enc_expr(env, e, acc, allow_none=False):
    """terms for a bytes-valued expression, or None if it is not one."""
    if isinstance(e, ast.BinOp) and isinstance(e.op, ast.Add):
        a = _enc_expr(env, e.left, acc, allow_none)
        b = _enc_expr(env, e.right, acc, allow_none)
        if a is None and b is None:
            return None
        return (a if a is not None else [("RAW", env.canon(e.left))]) + (b if b is not None else [("RAW", env.canon(e.right))])
    if isinstance(e, ast.Call):
        fn = norm(e.func)
        last = fn.split(".")[-1]
        if _pack_call(env, e) is not None:
            return _pack_terms(env, e)
        if last in WRITERS:
            if WRITERS[last] == "STR":
                return [("STR", env.canon(e.args[0]), last.split("_")[-1])]  # kind: ascii / text / bytes
            return [(WRITERS[last], env.canon(e.args[0]))]
        if fn == 'b"".join' or fn == "b''.join":
            items = _list_terms(env, e.args[0], acc)
            return items if items is not None else [("OPAQUE", norm(e))]
        callee = env.prog.resolve_call(env.func, e)
        if callee is not None and callee.module.name == "kafkacodec" and ("encode" in callee.name):
            if callee.name == "_encode_message_set":
                return [("MSGSET", env.canon(e.args[0]))]
            # inline with parameter substitution
            ps = [p for p in callee.params if p not in ("cls", "self")]
            sub = {}
            for p, a in zip(ps, e.args):
                sub[p] = env.canon(a)
            for k in e.keywords:
                if k.arg:
                    sub[k.arg] = env.canon(k.value)
            dflt = callee.node.args.defaults
            names = [a.arg for a in callee.node.args.args]
            for nme, d in zip(names[len(names) - len(dflt):], dflt):
                sub.setdefault(nme, norm(d))
            cpairs = {p: env.pairs[a.id] for p, a in zip(ps, e.args) if isinstance(a, ast.Name) and a.id in env.pairs}
            t, env2 = encoder_terms(env.prog, callee, sub, pairs=cpairs)
            env.endians |= env2.endians
            return t
        return None
    if isinstance(e, ast.Name):
        if e.id in acc and not env.lists.get(e.id):
            return list(acc[e.id])
        s = env.subst.get(e.id)
        if s is not None and allow_none:
            return None
        # a module-level constant holding pre-encoded bytes (`_NO_REPLICA = struct.pack(">i", -1)`)
        from .rules.util import module_const
        mc = module_const(env.func, e.id)
        if mc is not None and (_pack_call(env, mc) is not None or (isinstance(mc, ast.Constant) and isinstance(mc.value, bytes))):
            return _enc_expr(env, mc, acc)
        return None
    if isinstance(e, ast.Constant) and isinstance(e.value, bytes):
        return [] if not e.value else [("RAW", repr(e.value))]
    return None


def _pack_terms(env, call):
    pc = _pack_call(env, call)
    f, args = pc if pc is not None else (call.args[0], list(call.args[1:]))
    fv = _fmt_value(env, f)
    if isinstance(f, ast.Name) and fv is None:
        f = _expanded(env, f)  # `fmt = ">i%di" % n` named by a local
    if fv is not None:
        endian, codes = parse_fmt(fv)
        env.endians.add(endian)
        if codes is None or len(codes) != len(args) or any(isinstance(a, ast.Starred) for a in args):
            return [("OPAQUE", norm(call))]
        out = []
        for c, a in zip(codes, args):
            vals = env.scal.get(a.id) if isinstance(a, ast.Name) and a.id not in env.subst else None
            if vals is not None and len(vals) > 1:
                out.append(("ALT", [(cond, [("P", CODES[c], v)]) for cond, v in vals]))
            elif isinstance(a, (ast.Name, ast.Attribute)) and isinstance(_const(env, a), int) and not isinstance(_const(env, a), bool) and (
                    not isinstance(a, ast.Name) or (a.id not in env.subst and a.id not in env.scal)) and _is_module_or_class_const(env, a):
                out.append(("P", CODES[c], str(_const(env, a))))  # a named constant is the value it names
            else:
                out.append(("P", CODES[c], env.canon(a)))
        return out
    if isinstance(f, ast.BinOp) and isinstance(f.op, ast.Mod) and isinstance(f.left, ast.Constant):
        # ">i%si" % len(partitions), len(partitions), *partitions
        m = re.match(r"^([<>!=@]?)([a-zA-Z]*)%[sd]([a-zA-Z])$", f.left.value)
        if m and args and isinstance(args[-1], ast.Starred):
            env.endians.add(m.group(1))
            fixed = list(m.group(2))
            out = [("P", CODES[c], env.canon(a)) for c, a in zip(fixed, args[:len(fixed)])]
            out.append(("REP", env.canon(f.right), CODES[m.group(3)], env.canon(args[-1].value)))
            return out
    return [("OPAQUE", norm(call))]


# --------------------------------------------------------------- normalise
def normalise(terms):
    out = []
    i = 0
    terms = [_norm_inner(t) for t in terms]
    while i < len(terms):
        t = terms[i]
        nxt = terms[i + 1] if i + 1 < len(terms) else None
        if t[0] == "P" and isinstance(t[2], str) and t[2].startswith("len(") and nxt is not None:
            inner = t[2][4:-1]
            if t[1] == "INT16" and nxt[0] == "RAW" and nxt[1] == inner:
                out.append(("STR", inner, "raw"))
                i += 2
                continue
            if t[1] == "INT32" and nxt[0] in ("RAW", "MSGSET") and (nxt[1] == inner or nxt[0] == "MSGSET"):
                out.append(("SIZED", nxt))
                i += 2
                continue
            if t[1] == "INT32" and nxt[0] == "LOOP" and nxt[1] in (inner, inner + ".items()"):
                out.append(("ARRAY", inner, normalise(nxt[2])))
                i += 2
                continue
            if t[1] == "INT32" and nxt[0] == "REP" and nxt[1] == t[2] and nxt[3] == inner:
                out.append(("ARRAY", inner, [("P", nxt[2], "<each %s>" % inner)]))
                i += 2
                continue
        # SIZED via a local: (INT32 len(msg_set)) then MSGSET assigned earlier to msg_set
        out.append(t)
        i += 1
    return out


def hoist_alt(terms, discriminator):
    """[X, ALT(c_i: B_i), Y]  ==  [ALT(c_i: X + B_i + Y)]: distribute the surrounding sequence over the (single)
    alternative whose conditions mention `discriminator`, so that a common prefix/suffix written once outside the
    `if` and the same bytes written in each arm give the same term."""
    idx = [i for i, t in enumerate(terms) if t[0] == "ALT" and any(discriminator in c for c, b in t[1])]
    if len(idx) != 1:
        return terms
    i = idx[0]
    pre, post = terms[:i], terms[i + 1:]
    return [("ALT", [(c, normalise(list(pre) + list(b) + list(post))) for c, b in terms[i][1]])]


def _norm_inner(t):
    if t[0] == "ALT":
        return ("ALT", [(c, normalise(b)) for c, b in t[1]])
    if t[0] == "LOOP":
        return ("LOOP", t[1], normalise(t[2]))
    return t


def show(terms, ind=0):
    lines = []
    pad = "  " * ind
    for t in terms:
        if t[0] == "P":
            lines.append("%s%s <- %s" % (pad, t[1], t[2]))
        elif t[0] in ("STR", "BYTES", "RAW", "MSGSET", "OPAQUE"):
            lines.append("%s%s <- %s" % (pad, t[0], t[1]))
        elif t[0] == "SIZED":
            lines.append("%sSIZED(%s <- %s)" % (pad, t[1][0], t[1][1]))
        elif t[0] == "ARRAY":
            lines.append("%sARRAY over %s:" % (pad, t[1]))
            lines.extend(show(t[2], ind + 1))
        elif t[0] == "LOOP":
            lines.append("%sLOOP(no count) over %s:" % (pad, t[1]))
            lines.extend(show(t[2], ind + 1))
        elif t[0] == "REP":
            lines.append("%sREP %s x %s <- %s" % (pad, t[1], t[2], t[3]))
        elif t[0] == "ALT":
            for c, b in t[1]:
                lines.append("%sWHEN %s:" % (pad, c))
                lines.extend(show(b, ind + 1))
    return lines


# ---------------------------------------------------------------- decoders
class DecEnv(object):
    def __init__(self, prog, func):
        self.prog, self.func = prog, func
        self.flows = {}  # var -> set(var) (appended into / stored into / wrapped)
        self.ctor_args = []  # (Struct name, [arg exprs], call)
        self.endians = set()
        self.tuple_bound = []  # (name, n_fields, call) for  (name, cur) = relative_unpack(const fmt with n fields)
        self.rebases = []
        self.copies = {}  # local -> canonical text of what it was copied from (`n = header[1]`, `left = count`)


class _Specialise(ast.NodeTransformer):
    """the body of a decoder for given constant parameters: names replaced, decided `if`s folded"""

    def __init__(self, consts):
        self.consts = consts

    def visit_Name(self, n):
        if isinstance(n.ctx, ast.Load) and n.id in self.consts:
            return ast.copy_location(_copy(self.consts[n.id]), n)
        return n

    def visit_FunctionDef(self, n):
        return n

    def visit_If(self, n):
        self.generic_visit(n)
        t = n.test
        neg = False
        while isinstance(t, ast.UnaryOp) and isinstance(t.op, ast.Not):
            t, neg = t.operand, not neg
        if isinstance(t, ast.Constant):
            taken = n.body if (bool(t.value) != neg) else n.orelse
            return taken or [ast.Pass()]
        return n


def decoder_terms(prog, func, consts=None):
    """consts: parameter name -> constant expression the decoder is specialised for (a per-version variant selected by
    its caller with constant arguments: a format string, a flag)"""
    env = DecEnv(prog, func)
    body = func.body
    if consts:
        import copy
        mod = ast.Module(body=copy.deepcopy(list(func.body)), type_ignores=[])
        body = _Specialise(consts).visit(mod).body
    terms = _dec_block(env, body)
    return _dec_norm(terms), env


def _target_names(t):
    """(value_target, cursor_target) from `(X, cur)`"""
    if isinstance(t, ast.Tuple) and len(t.elts) == 2:
        return t.elts[0], t.elts[1]
    if isinstance(t, ast.Name):
        # `pair = read_x(data, cur)`: the value is pair[0], the cursor pair[1]
        return (ast.Subscript(value=ast.Name(id=t.id, ctx=ast.Load()), slice=ast.Constant(value=0), ctx=ast.Load()),
                ast.Subscript(value=ast.Name(id=t.id, ctx=ast.Load()), slice=ast.Constant(value=1), ctx=ast.Load()))
    return None, None


def _dec_block(env, stmts):
    out = []
    for st in stmts:
        if isinstance(st, ast.Expr) and isinstance(st.value, ast.Constant):
            continue
        if isinstance(st, (ast.FunctionDef,)):
            continue
        if isinstance(st, ast.Assign) and len(st.targets) == 1 and isinstance(st.value, ast.Call):
            fn = norm(st.value.func).split(".")[-1]
            vt, ct = _target_names(st.targets[0])
            if fn == "relative_unpack" and vt is not None:
                out.extend(_unpack_terms(env, st, vt))
                continue
            if fn in READERS and vt is not None:
                if READERS[fn] == "STR":
                    out.append(("STR", norm(vt), fn.split("_")[-1]))
                else:
                    out.append((READERS[fn], norm(vt)))
                continue
        # `a, b, c = fields` : the whole-tuple name is destructured after all - rename its leaves
        if isinstance(st, ast.Assign) and len(st.targets) == 1 and isinstance(st.targets[0], (ast.Tuple, ast.List)) and isinstance(st.value, ast.Name):
            tb = [x for x in env.tuple_bound if x[0] == st.value.id]
            if tb and len(st.targets[0].elts) == tb[0][1] and all(isinstance(e, ast.Name) for e in st.targets[0].elts):
                ren = {"%s[%d]" % (st.value.id, i): e.id for i, e in enumerate(st.targets[0].elts)}
                out[:] = [_rename_leaf(t, ren) for t in out]
                env.tuple_bound.remove(tb[0])
                env.destructured = getattr(env, "destructured", set()) | {st.value.id}
                continue
        # `a, b, c = fields[:3]` : a prefix of the whole-tuple name is destructured (the rest stays `fields[k]`, unused)
        if isinstance(st, ast.Assign) and len(st.targets) == 1 and isinstance(st.targets[0], (ast.Tuple, ast.List)) and isinstance(
                st.value, ast.Subscript) and isinstance(st.value.value, ast.Name) and isinstance(st.value.slice, ast.Slice) and \
                st.value.slice.lower is None and st.value.slice.step is None and isinstance(st.value.slice.upper, ast.Constant):
            tb = [x for x in env.tuple_bound if x[0] == st.value.value.id]
            k = st.value.slice.upper.value
            if tb and isinstance(k, int) and len(st.targets[0].elts) == k <= tb[0][1] and all(isinstance(e, ast.Name) for e in st.targets[0].elts):
                ren = {"%s[%d]" % (st.value.value.id, i): e.id for i, e in enumerate(st.targets[0].elts)}
                out[:] = [_rename_leaf(t, ren) for t in out]
                env.destructured = getattr(env, "destructured", set()) | {st.value.value.id}
                continue
        # plain copies of a leaf or a count (`n = header[1]`, `remaining = count`)
        if isinstance(st, ast.Assign) and len(st.targets) == 1 and isinstance(st.targets[0], ast.Name) and isinstance(st.value, (ast.Name, ast.Subscript)):
            src = norm(st.value)
            env.copies[st.targets[0].id] = env.copies.get(src, src)
        if isinstance(st, ast.Assign) and isinstance(st.value, ast.YieldFrom) and isinstance(st.value.value, ast.Call):
            sub = _dec_helper(env, st.value.value)
            if sub is not None:
                out.extend(sub)
                continue
        if isinstance(st, ast.Expr) and isinstance(st.value, ast.YieldFrom) and isinstance(st.value.value, ast.Call):
            sub = _dec_helper(env, st.value.value)
            if sub is not None:
                out.extend(sub)
                continue
        if isinstance(st, ast.While):
            cnt = _counting_while(env, st)
            if cnt is not None:
                out.append(("LOOP", cnt, _dec_block(env, st.body)))
                continue
        if isinstance(st, ast.Assign):
            _note_flow(env, st)
            t0 = st.targets[0]
            if isinstance(t0, ast.Name) and isinstance(st.value, ast.Subscript) and norm(st.value.value) == t0.id:
                env.rebases.append(norm(st))
                out.append(("OPAQUE", "rebase " + norm(st)))
            continue
        if isinstance(st, ast.Expr) and isinstance(st.value, (ast.Yield, ast.Call)):
            _note_flow(env, st)
            continue
        if isinstance(st, ast.Return):
            _note_flow(env, st)
            if isinstance(st.value, ast.Call):
                callee = env.prog.resolve_callable(env.func, st.value.func)
                if callee is not None and callee.parent is env.func:
                    out.append(("CALLS", callee.name))
            continue
        if isinstance(st, ast.For):
            body = _dec_block(env, st.body)
            it = st.iter
            if isinstance(it, ast.Call) and norm(it.func) == "range" and len(it.args) == 1:
                cnt = norm(it.args[0])
                out.append(("LOOP", env.copies.get(cnt, cnt), body))
            elif isinstance(it, ast.Call) and norm(it.func).endswith("iter_unpack"):
                f = it.args[0]
                endian, codes = parse_fmt(f.value) if isinstance(f, ast.Constant) else ("", None)
                env.endians.add(endian)
                names = [norm(e) for e in st.target.elts] if isinstance(st.target, ast.Tuple) else [norm(st.target)]
                leaves = [("P", CODES[c], n) for c, n in zip(codes or [], names)]
                out.append(("GREEDY", norm(it.args[1]), leaves + body))
            else:
                out.append(("OPAQUE", "for " + norm(st.target) + " in " + norm(it)))
                out.extend(body)
            continue
        if isinstance(st, ast.If):
            alts = []
            chain = st
            raising = []
            while True:
                alts.append((norm(chain.test), _dec_block(env, chain.body)))
                raising.append(bool(chain.body) and isinstance(chain.body[-1], ast.Raise))
                if len(chain.orelse) == 1 and isinstance(chain.orelse[0], ast.If):
                    chain = chain.orelse[0]
                    continue
                alts.append(("else", _dec_block(env, chain.orelse)))
                raising.append(bool(chain.orelse) and isinstance(chain.orelse[-1], ast.Raise))
                break
            live = [(c, b) for (c, b), rz in zip(alts, raising) if not rz]
            if len(live) == 1 and len(alts) > 1 and all(not b for (c, b), rz in zip(alts, raising) if rz):
                # every other arm only raises (a guard): the surviving arm is the layout, unconditionally
                out.extend(live[0][1])
            elif any(b for c, b in alts):
                out.append(("ALT", alts))
            continue
        if isinstance(st, ast.Raise):
            continue
    return out


def _rename_leaf(t, ren):
    if t[0] == "P" and t[2] in ren:
        return ("P", t[1], ren[t[2]])
    if t[0] in ("LOOP", "GREEDY"):
        return (t[0], ren.get(t[1], t[1]), [_rename_leaf(x, ren) for x in t[2]])
    if t[0] == "ALT":
        return ("ALT", [(c, [_rename_leaf(x, ren) for x in b]) for c, b in t[1]])
    return t


def _counting_while(env, st):
    """count text of `while n > 0: ...; n -= 1` / `while i < n: ...; i += 1` (i starting at 0), else None"""
    t = st.test
    if not (isinstance(t, ast.Compare) and len(t.ops) == 1 and not st.orelse):
        return None
    left, right, op = t.left, t.comparators[0], t.ops[0]
    steps = [x for x in st.body if isinstance(x, ast.AugAssign) and isinstance(x.target, ast.Name) and isinstance(x.value, ast.Constant) and x.value.value == 1]
    if len(steps) != 1 or any(isinstance(x, (ast.Break, ast.Continue)) for b in st.body for x in ast.walk(b)):
        return None
    var = steps[0].target.id
    down = isinstance(steps[0].op, ast.Sub)
    if down and isinstance(left, ast.Name) and left.id == var and isinstance(op, ast.Gt) and isinstance(right, ast.Constant) and right.value == 0:
        return env.copies.get(var, var)
    if down and isinstance(left, ast.Name) and left.id == var and isinstance(op, ast.GtE) and isinstance(right, ast.Constant) and right.value == 1:
        return env.copies.get(var, var)
    if down and isinstance(left, ast.Name) and left.id == var and isinstance(op, ast.NotEq) and isinstance(right, ast.Constant) and right.value == 0:
        return env.copies.get(var, var)
    if not down and isinstance(left, ast.Name) and left.id == var and isinstance(op, ast.Lt) and isinstance(right, (ast.Name, ast.Subscript)):
        # i < n with i initialised to 0 (checked loosely: the copy table knows `i = 0` is not a leaf)
        cnt = norm(right)
        return env.copies.get(cnt, cnt)
    return None


def _dec_helper(env, call):
    """terms read by a local helper generator (`cur = yield from read_partitions(n, cur)`): the callee's own terms with
    its parameters replaced by the canonical texts of the arguments"""
    callee = env.prog.resolve_callable(env.func, call.func)
    if callee is None or callee.module.name != env.func.module.name or callee is env.func:
        return None
    sub = DecEnv(env.prog, callee)
    ps = [p for p in callee.params if p not in ("self", "cls")]
    for p_, a in zip(ps, call.args):
        if isinstance(a, (ast.Name, ast.Subscript)):
            t = norm(a)
            sub.copies[p_] = env.copies.get(t, t)
    terms = _dec_block(sub, callee.body)
    for p_, a in zip(ps, call.args):
        for v in _names(a):
            env.flows.setdefault(v, set()).add(p_)  # the argument flows into the helper's parameter
    env.flows.update({k: env.flows.get(k, set()) | v for k, v in sub.flows.items()})
    env.ctor_args.extend(sub.ctor_args)
    env.endians |= sub.endians
    env.tuple_bound.extend(sub.tuple_bound)
    return terms


def _unpack_terms(env, st, vt):
    call = st.value
    f = call.args[0]
    fv = _fmt_value(env, f)
    if fv is not None:
        endian, codes = parse_fmt(fv)
        env.endians.add(endian)
        if codes is None:
            return [("OPAQUE", norm(call))]
        if isinstance(vt, ast.Tuple):
            if len(vt.elts) != len(codes):
                return [("OPAQUE", "arity " + norm(st))]
            return [("P", CODES[c], norm(n)) for c, n in zip(codes, vt.elts)]
        # a bare name bound to the whole tuple
        env.tuple_bound.append((norm(vt), len(codes), st))
        return [("P", CODES[c], "%s[%d]" % (norm(vt), i)) for i, c in enumerate(codes)]
    if isinstance(f, ast.Name):
        f = _expanded(env, f)
    if isinstance(f, ast.BinOp) and isinstance(f.op, ast.Mod) and isinstance(f.left, ast.Constant):
        m = re.match(r"^([<>!=@]?)%[sd]([a-zA-Z])$", f.left.value)
        if m:
            env.endians.add(m.group(1))
            cnt = norm(f.right)
            return [("REP", env.copies.get(cnt, cnt), CODES[m.group(2)], norm(vt))]
    return [("OPAQUE", norm(call))]


def _note_flow(env, st):
    for n in ast.walk(st):
        if isinstance(n, ast.Call):
            fn = norm(n.func)
            if isinstance(n.func, ast.Attribute) and n.func.attr == "append" and n.args:
                for v in _names(n.args[0]):
                    env.flows.setdefault(v, set()).add(norm(n.func.value))
            if re.match(r"^_?[A-Z]\w+$", fn.split(".")[-1]) and not fn.startswith("KafkaCodec"):
                env.ctor_args.append((fn.split(".")[-1], list(n.args), n))
    if isinstance(st, ast.Assign):
        t = st.targets[0]
        if isinstance(t, (ast.Tuple, ast.List)) and isinstance(st.value, ast.Name):
            # `a, b, c = collected`: what flowed into the collection flows on into each name
            for e in t.elts:
                if isinstance(e, ast.Name):
                    env.flows.setdefault(st.value.id, set()).add(e.id)
        if isinstance(t, ast.Subscript):
            for v in _names(st.value):
                env.flows.setdefault(v, set()).add(norm(t.value))
        elif isinstance(t, ast.Name) and not isinstance(st.value, ast.Call):
            for v in _names(st.value):
                env.flows.setdefault(v, set()).add(t.id)
        elif isinstance(t, ast.Name) and isinstance(st.value, ast.Call) and not re.match(r"^_?[A-Z]", norm(st.value.func).split(".")[-1]):
            for v in _names(st.value):
                env.flows.setdefault(v, set()).add(t.id)


def _names(e):
    return {n.id for n in ast.walk(e) if isinstance(n, ast.Name)}


def _dec_norm(terms):
    out = []
    i = 0
    while i < len(terms):
        t = terms[i]
        nxt = terms[i + 1] if i + 1 < len(terms) else None
        if t[0] == "ALT":
            t = ("ALT", [(c, _dec_norm(b)) for c, b in t[1]])
            # every non-empty arm ends with the INT32 count of the loop that follows: hoist into an ARRAY
            if nxt is not None and nxt[0] == "LOOP":
                arms = [(c, b) for c, b in t[1] if b]
                if arms and all(b[-1][0] == "P" and b[-1][1] == "INT32" and b[-1][2] == nxt[1] for c, b in arms):
                    out.append(("ALT", [(c, b[:-1]) for c, b in t[1] if b] + [(c, b) for c, b in t[1] if not b]))
                    out.append(("ARRAY", nxt[1], _dec_norm(nxt[2])))
                    i += 2
                    continue
        if t[0] == "P" and t[1] == "INT32" and nxt is not None:
            if nxt[0] == "LOOP" and nxt[1] == t[2]:
                out.append(("ARRAY", t[2], _dec_norm(nxt[2])))
                i += 2
                continue
            if nxt[0] == "REP" and nxt[1] == t[2]:
                out.append(("ARRAY", t[2], [("P", nxt[2], nxt[3])]))
                i += 2
                continue
        if t[0] == "LOOP":
            t = ("LOOP", t[1], _dec_norm(t[2]))
        if t[0] == "GREEDY":
            t = ("GREEDY", t[1], _dec_norm(t[2]))
        out.append(t)
        i += 1
    return out


def attrs_of(prog, env, var, seen=None):
    """Set of Struct.attr that decoded variable `var` reaches (through appends,
    dict stores and simple wrappers)."""
    seen = seen if seen is not None else set()
    out = set()
    if var in seen:
        return out
    seen.add(var)
    base = var.split("[")[0]
    for cname, args, call in env.ctor_args:
        fields = struct_fields(prog, cname)
        for i, a in enumerate(args):
            direct = norm(a) == var or (isinstance(a, ast.Call) and len(a.args) == 1 and norm(a.args[0]) == var) or \
                (base != var and norm(a) == base)
            if direct and fields and i < len(fields):
                out.add("%s.%s" % (cname, fields[i]))
        for k in call.keywords:
            if k.arg and (norm(k.value) == var):
                out.add("%s.%s" % (cname, k.arg))
    for nxt in env.flows.get(base, ()):  # follow containers / copies
        out |= attrs_of(prog, env, nxt, seen)
    return out


def attr_of(prog, env, var):
    r = sorted(attrs_of(prog, env, var))
    return r[0] if r else None


_FIELDS = {}


def struct_fields(prog, cname):
    if cname in _FIELDS:
        return _FIELDS[cname]
    ci = prog.module("common").classes.get(cname)
    out = None
    if ci is not None:
        out = []
        for st in ci.node.body:
            if isinstance(st, ast.AnnAssign) and isinstance(st.target, ast.Name) and st.value is not None and "attr.ib" in norm(st.value):
                out.append(st.target.id)
            elif isinstance(st, ast.Assign) and isinstance(st.targets[0], ast.Name) and "attr.ib" in norm(st.value):
                out.append(st.targets[0].id)
    _FIELDS[cname] = out
    return out


def types_only(terms):
    """Strip bindings: structural grammar for comparison."""
    out = []
    for t in terms:
        if t[0] == "P":
            out.append(t[1])
        elif t[0] in ("STR", "BYTES"):
            out.append(t[0])
        elif t[0] == "RAW":
            out.append("RAW")
        elif t[0] == "MSGSET":
            out.append("MSGSET")
        elif t[0] == "SIZED":
            out.append(("SIZED", t[1][0]))
        elif t[0] == "ARRAY":
            out.append(("ARRAY", tuple(types_only(t[2]))))
        elif t[0] == "ALT":
            out.append(("ALT", tuple((c, tuple(types_only(b))) for c, b in t[1])))
        elif t[0] == "LOOP":
            out.append(("LOOP", tuple(types_only(t[2]))))
        elif t[0] == "GREEDY":
            out.append(("GREEDY", tuple(types_only(t[2]))))
        elif t[0] == "REP":
            out.append(("REP", t[2]))
        else:
            out.append((t[0], t[1]))
    return out


def leaves(terms, path=""):
    """Flatten to [(path, TYPE, bind)] in wire order."""
    out = []
    for t in terms:
        if t[0] == "P":
            out.append((path, t[1], t[2]))
        elif t[0] in ("STR", "BYTES", "RAW", "MSGSET"):
            out.append((path, t[0], t[1]))
        elif t[0] == "SIZED":
            out.append((path, "SIZED(%s)" % t[1][0], t[1][1]))
        elif t[0] == "ARRAY":
            out.append((path, "ARRAY[", t[1]))
            out.extend(leaves(t[2], path + "[]"))
            out.append((path, "]", ""))
        elif t[0] == "ALT":
            for c, b in t[1]:
                out.append((path, "WHEN", c))
                out.extend(leaves(b, path))
        elif t[0] in ("LOOP", "GREEDY"):
            out.append((path, t[0] + "[", t[1]))
            out.extend(leaves(t[2], path + "[]"))
            out.append((path, "]", ""))
        elif t[0] == "REP":
            out.append((path, "REP(%s)" % t[2], t[3]))
        else:
            out.append((path, t[0], t[1]))
    return out


def collapse_alts(terms):
    """Replace an ALT whose non-empty arms have identical types by its first
    such arm (the arms differ only in bindings, e.g. timestamp from the clock)."""
    out = []
    for t in terms:
        if t[0] == "ALT":
            arms = [(c, collapse_alts(b)) for c, b in t[1]]
            ne = [b for c, b in arms if b]
            if ne and all(types_only(b) == types_only(ne[0]) for b in ne) and len(ne) == len([1 for c, b in arms if c != "else" or b]):
                out.extend(ne[0])
                continue
            out.append(("ALT", arms))
        elif t[0] in ("ARRAY", "LOOP", "GREEDY"):
            out.append((t[0], t[1], collapse_alts(t[2])))
        else:
            out.append(t)
    return out

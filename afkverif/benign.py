"""Whole-package behaviour-preserving rewrites used as large-scale twins (see tools/benign.py, selftest)."""
import ast
import builtins

KINDS = ("roundtrip", "logging", "rename", "all")


class Renamer(ast.NodeTransformer):
    """rename locals of each top-level function/method consistently, including uses in nested defs/lambdas"""

    def __init__(self):
        self.stack = []

    def _locals(self, fn):
        params = set()
        assigned = set()
        declared = set()

        def visit(node, top):
            for n in ast.iter_child_nodes(node):
                if isinstance(n, (ast.FunctionDef, ast.AsyncFunctionDef, ast.Lambda)):
                    a = n.args
                    for x in list(a.posonlyargs) + list(a.args) + list(a.kwonlyargs) + ([a.vararg] if a.vararg else []) + ([a.kwarg] if a.kwarg else []):
                        params.add(x.arg)
                    if not isinstance(n, ast.Lambda):
                        declared.add(n.name)
                    visit(n, False)
                    continue
                if isinstance(n, ast.ClassDef):
                    declared.add(n.name)
                    continue
                if isinstance(n, (ast.Global, ast.Nonlocal)):
                    declared.update(n.names)
                if isinstance(n, ast.Name) and isinstance(n.ctx, (ast.Store, ast.Del)):
                    assigned.add(n.id)
                if isinstance(n, ast.ExceptHandler) and n.name:
                    declared.add(n.name)
                if isinstance(n, (ast.Import, ast.ImportFrom)):
                    for al in n.names:
                        declared.add((al.asname or al.name).split(".")[0])
                visit(n, top)
        a = fn.args
        for x in list(a.posonlyargs) + list(a.args) + list(a.kwonlyargs) + ([a.vararg] if a.vararg else []) + ([a.kwarg] if a.kwarg else []):
            params.add(x.arg)
        visit(fn, True)
        return {n for n in assigned if n not in params and n not in declared and not hasattr(builtins, n) and n != "_"}

    def visit_FunctionDef(self, node):
        if self.stack:
            self.generic_visit(node)
            return node
        names = self._locals(node)
        self.stack.append(names)
        self.generic_visit(node)
        self.stack.pop()
        return node

    visit_AsyncFunctionDef = visit_FunctionDef

    def visit_Name(self, node):
        if self.stack and node.id in self.stack[0]:
            node.id = node.id + "_rn"
        return node

    def visit_ClassDef(self, node):
        self.generic_visit(node)
        return node


class Logger(ast.NodeTransformer):
    def visit_FunctionDef(self, node):
        self.generic_visit(node)
        stmt = ast.parse(("log.debug('enter %s')" if self.has_log else "pass") % (() if not self.has_log else node.name)
                         if self.has_log else "pass").body[0]
        i = 1 if node.body and isinstance(node.body[0], ast.Expr) and isinstance(node.body[0].value, ast.Constant) else 0
        has_nonlocal = [k for k, s in enumerate(node.body) if isinstance(s, (ast.Nonlocal, ast.Global))]
        if has_nonlocal:
            i = max(i, has_nonlocal[-1] + 1)
        node.body.insert(i, stmt)
        return node


def transform(src, kind):
    tree = ast.parse(src)
    if kind in ("rename", "all"):
        tree = Renamer().visit(tree)
    if kind in ("logging", "all"):
        lg = Logger()
        lg.has_log = any(isinstance(st, ast.Assign) and isinstance(st.targets[0], ast.Name) and st.targets[0].id == "log" for st in tree.body)
        tree = lg.visit(tree)
    ast.fix_missing_locations(tree)
    out = ast.unparse(tree)
    ast.parse(out)
    return out



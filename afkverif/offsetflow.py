"""Where do the offsets yielded by the per-format message decoders come from?

A small provenance analysis over `KafkaCodec._decode_message` and everything nested in it.  Every value is described
by a set of tags:

    W      the wrapper's own offset (the `offset` parameter of _decode_message), however it reaches the use: passed as
           an argument, captured by a closure, copied through locals
    I      the offset an inner message carries inside a decompressed message set
    LAST   the offset of the LAST inner message of that set (`inner[-1][0]`, `max(...)` over the inner offsets)
    ('SEQ', T)   a sequence of (offset, message) pairs whose offsets have provenance T (the inner set itself: T = {I})

The analysis is flow-sensitive inside each function (reaching definitions on its CFG: a loop target that re-uses the
name of a parameter kills the parameter), follows parameters to the arguments of every call site in the nest, follows
free variables into the enclosing function, generators into their yields and plain helpers into their returns.
Anything it cannot follow contributes the tag '?', which fails every rule that looks at it.
"""
import ast

from .model import unparse, walk_shallow
from .rules.util import call_name, node_local_writes, reaching_defs

W, I, LAST, UNK = "W", "I", "LAST", "?"


def _seq(t):
    return ("SEQ", frozenset(t))


class OffsetFlow(object):
    def __init__(self, ctx, dm, wrapper_param):
        self.ctx, self.prog, self.dm, self.wparam = ctx, ctx.prog, dm, wrapper_param
        self.family = {}
        stack = [dm]
        while stack:
            f = stack.pop()
            self.family[f.name] = f
            stack.extend(f.nested.values())
        self._memo = {}
        self._busy = set()

    # ------------------------------------------------------------------ helpers
    def _owner_of(self, node):
        for f in self.family.values():
            for x in walk_shallow(f.node):
                if x is node:
                    return f
        return None

    def _node_of(self, f, astnode):
        cf = self.ctx.cfg(f)
        ns = cf.containing(astnode)
        return ns[0] if ns else None

    @staticmethod
    def _elem(tags):
        """offset provenance of the elements of the sequences among `tags`"""
        out = set()
        for t in tags:
            if isinstance(t, tuple) and t[0] == "SEQ":
                out |= set(t[1])
            else:
                out.add(UNK)
        return out or {UNK}

    # ------------------------------------------------------------------ expressions
    def tags(self, f, nid, e, depth=0):
        if depth > 60:
            return {UNK}
        if isinstance(e, ast.Constant):
            return set()
        if isinstance(e, ast.Name):
            return self.name_tags(f, nid, e.id, depth)
        if isinstance(e, ast.BinOp):
            return self.tags(f, nid, e.left, depth + 1) | self.tags(f, nid, e.right, depth + 1)
        if isinstance(e, ast.UnaryOp):
            return self.tags(f, nid, e.operand, depth + 1)
        if isinstance(e, ast.IfExp):
            return self.tags(f, nid, e.body, depth + 1) | self.tags(f, nid, e.orelse, depth + 1)
        if isinstance(e, ast.Subscript):
            base = self.tags(f, nid, e.value, depth + 1)
            idx = unparse(e.slice)
            out = set()
            for t in base:
                if isinstance(t, tuple) and t[0] == "SEQ":
                    # seq[-1] -> the last pair; a pair is represented by ('PAIR', T')
                    sel = {LAST if x == I else x for x in t[1]} if idx == "-1" else set(t[1]) | ({UNK} if idx != "0" else set())
                    if idx == "0":
                        sel = {UNK}  # the FIRST pair: not what the protocol defines
                    out.add(("PAIR", frozenset(sel)))
                elif isinstance(t, tuple) and t[0] == "PAIR":
                    out |= set(t[1]) if idx == "0" else set()
                else:
                    out.add(t)
            return out
        if isinstance(e, ast.Attribute):
            base = self.tags(f, nid, e.value, depth + 1)
            if e.attr == "offset":
                out = set()
                for t in base:
                    if isinstance(t, tuple) and t[0] == "PAIR":
                        out |= set(t[1])
                    else:
                        out.add(t)
                return out
            return set()
        if isinstance(e, ast.Tuple):
            return {("PAIR", frozenset(self.tags(f, nid, e.elts[0], depth + 1)))} if e.elts else set()
        if isinstance(e, (ast.GeneratorExp, ast.ListComp)) and len(e.generators) == 1:
            g = e.generators[0]
            src = self._elem(self.tags(f, nid, g.iter, depth + 1))
            first = self._first_target(g.target)
            # the element expression evaluated with the comprehension's first target bound to the source's offsets
            names = {n.id for n in ast.walk(e.elt) if isinstance(n, ast.Name)}
            if first is not None and names <= {first}:
                return {_seq(src)} if isinstance(e.elt, ast.Name) else {_seq(src)}
            if isinstance(e.elt, ast.Tuple) and e.elt.elts and isinstance(e.elt.elts[0], ast.Name) and e.elt.elts[0].id == first:
                return {_seq(src)}
            return {_seq(src | {UNK})}
        if isinstance(e, ast.Call):
            nm = call_name(e)
            if nm == "_decode_message_set_iter":
                return {_seq({I})}
            if isinstance(e.func, ast.Name) and e.func.id in ("list", "tuple", "iter") and len(e.args) == 1:
                return self.tags(f, nid, e.args[0], depth + 1)
            if isinstance(e.func, ast.Name) and e.func.id in ("max",) and len(e.args) == 1:
                el = self._elem(self.tags(f, nid, e.args[0], depth + 1))
                return {LAST if x == I else x for x in el}
            if isinstance(e.func, ast.Name) and e.func.id in self.family and self.family[e.func.id] is not f:
                return self.call_result(self.family[e.func.id], depth)
            if isinstance(e.func, ast.Name) and e.func.id in ("int", "abs", "len"):
                return set().union(*[self.tags(f, nid, a, depth + 1) for a in e.args]) if e.args else set()
            return set()
        return set()

    @staticmethod
    def _first_target(t):
        if isinstance(t, ast.Name):
            return None
        if isinstance(t, (ast.Tuple, ast.List)) and t.elts and isinstance(t.elts[0], ast.Name):
            return t.elts[0].id
        return None

    def call_result(self, h, depth):
        """what a call of nested function h evaluates to: a sequence of its yields (generator) or its returns"""
        key = ("res", h.qname)
        if key in self._memo:
            return self._memo[key]
        if key in self._busy:
            return {UNK}
        self._busy.add(key)
        cf = self.ctx.cfg(h)
        ys = [(n, y) for n in cf.nodes for y in n.walk() if isinstance(y, (ast.Yield, ast.YieldFrom))]
        out = set()
        if ys:
            el = set()
            for n, y in ys:
                el |= self.yield_tags(h, n, y, depth + 1)
            out = {_seq(el)}
        else:
            for n in cf.nodes:
                if n.kind == "stmt" and isinstance(n.stmt, ast.Return) and n.stmt.value is not None:
                    out |= self.tags(h, n.id, n.stmt.value, depth + 1)
        self._busy.discard(key)
        self._memo[key] = out
        return out

    def yield_tags(self, f, n, y, depth=0):
        """offset provenance of what one yield contributes"""
        if isinstance(y, ast.YieldFrom):
            return self._elem(self.tags(f, n.id, y.value, depth + 1))
        v = y.value
        if isinstance(v, ast.Tuple) and v.elts:
            return self.tags(f, n.id, v.elts[0], depth + 1)
        if v is None:
            return {UNK}
        t = self.tags(f, n.id, v, depth + 1)
        out = set()
        for x in t:
            if isinstance(x, tuple) and x[0] == "PAIR":
                out |= set(x[1])
            else:
                out.add(UNK)
        return out or {UNK}

    # ------------------------------------------------------------------ names
    def name_tags(self, f, nid, name, depth):
        key = ("name", f.qname, nid, name)
        if key in self._memo:
            return self._memo[key]
        if key in self._busy:
            return set()
        self._busy.add(key)
        cf = self.ctx.cfg(f)
        out = set()
        bound_here = name in f.params or any(name in node_local_writes(n) for n in cf.nodes)
        if not bound_here:
            if f.parent is not None and f.parent.name in self.family:
                # free variable: the enclosing function's binding, as it is where this function is used
                par = f.parent
                cp = self.ctx.cfg(par)
                uses = [n for n in cp.nodes if any(isinstance(x, ast.Name) and x.id == f.name for x in n.walk())]
                if uses:
                    for u in uses:
                        out |= self.name_tags(par, u.id, name, depth + 1)
                else:
                    out |= self.name_tags(par, cp.exit.id, name, depth + 1)
            # a global / builtin: no offset in it
        else:
            defs = reaching_defs(cf, nid, name)
            writers = [n.id for n in cf.nodes if name in node_local_writes(n) and n.id != nid]
            if name in f.params and nid in cf.reach([cf.entry.id], avoid=writers, include_src=True):
                out |= self.param_tags(f, name, depth + 1)
            for d in defs:
                out |= self.def_tags(f, cf.nodes[d], name, depth + 1)
        self._busy.discard(key)
        self._memo[key] = out
        return out

    def param_tags(self, f, name, depth):
        if f is self.dm:
            return {W} if name == self.wparam else set()
        idx = f.params.index(name)
        out = set()
        found = False
        for g in self.family.values():
            for x in walk_shallow(g.node):
                if isinstance(x, ast.Call) and isinstance(x.func, ast.Name) and x.func.id == f.name and g is not f:
                    found = True
                    arg = None
                    if idx < len(x.args):
                        arg = x.args[idx]
                    for k in x.keywords:
                        if k.arg == name:
                            arg = k.value
                    if arg is None:
                        continue
                    gn = self._node_of(g, x)
                    out |= self.tags(g, gn.id if gn is not None else self.ctx.cfg(g).exit.id, arg, depth + 1)
        return out if found else {UNK}

    def def_tags(self, f, dn, name, depth):
        st = dn.stmt
        if dn.kind == "for":
            el = self._elem(self.tags(f, dn.id, st.iter, depth + 1))
            tg = st.target
            if isinstance(tg, ast.Name):
                return {("PAIR", frozenset(el))} if tg.id == name else set()
            if isinstance(tg, (ast.Tuple, ast.List)) and tg.elts:
                if isinstance(tg.elts[0], ast.Name) and tg.elts[0].id == name:
                    return el
                return set()
            return {UNK}
        if isinstance(st, ast.Assign):
            for t in st.targets:
                if isinstance(t, ast.Name) and t.id == name:
                    return self.tags(f, dn.id, st.value, depth + 1)
                if isinstance(t, (ast.Tuple, ast.List)):
                    # destructuring: decoded data (read_*/relative_unpack) or a pair
                    if isinstance(st.value, ast.Call):
                        return set()
                    v = self.tags(f, dn.id, st.value, depth + 1)
                    pos = [i for i, e in enumerate(t.elts) if isinstance(e, ast.Name) and e.id == name]
                    out = set()
                    for x in v:
                        if isinstance(x, tuple) and x[0] == "PAIR" and pos == [0]:
                            out |= set(x[1])
                    return out
        if isinstance(st, ast.AugAssign) and isinstance(st.target, ast.Name) and st.target.id == name:
            prev = set()
            for p_, _l in self.ctx.cfg(f).pred[dn.id]:
                prev |= self.name_tags(f, p_, name, depth + 1)
            return prev | self.tags(f, dn.id, st.value, depth + 1)
        return set()

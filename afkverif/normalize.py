"""Behaviour-preserving normalisation applied to every parsed unit before it is indexed.

One pass: *helper inlining*.  The rule instances were confirmed by hand on a reference tree; the functions of that
tree are frozen in `reference_functions.json` (tools/gen_reference.py).  A function that is NOT in the reference
(an "extract method" refactoring, or a helper added by a change) is inlined at its direct call sites when that can
be done by a purely syntactic, semantics-preserving rewrite (structured returns, simple parameters, no generator);
if no reference to it remains it is removed.  The rules then see the code the helper's callers execute, so an
extracted helper neither hides a mechanism from a rule (false alarm) nor hides a defect in it (missed violation).
Anything that cannot be inlined soundly is left exactly as written.

Everything here works on `ast` trees only; nothing is imported or executed.
"""
import ast
import copy
import json
import os

_REF = None


def reference():
    global _REF
    if _REF is None:
        p = os.path.join(os.path.dirname(os.path.abspath(__file__)), "reference_functions.json")
        try:
            with open(p) as fh:
                _REF = {k: set(v) for k, v in json.load(fh).items()}
        except (OSError, ValueError):
            _REF = {}
    return _REF


FUNC = (ast.FunctionDef, ast.AsyncFunctionDef)


def def_paths(tree):
    """(qualified name, def node, block owner, kind of the enclosing scope) of every def in a module:
    'f', 'C.m', 'C.m.nested' (classes and defs both qualify); kind is 'module', 'class' or 'func'."""
    out = []

    def rec(body_owner, prefix, kind):
        for n in ast.iter_child_nodes(body_owner):
            if isinstance(n, FUNC):
                q = prefix + n.name
                out.append((q, n, body_owner, kind))
                rec(n, q + ".", "func")
            elif isinstance(n, ast.ClassDef):
                rec(n, prefix + n.name + ".", "class")
            elif isinstance(n, (ast.If, ast.Try, ast.With, ast.For, ast.While, ast.ExceptHandler)):
                rec(n, prefix, kind)

    rec(tree, "", "module")
    return out


# ------------------------------------------------------------------ helpers
def _shallow(node):
    """Nodes of a function body without descending into nested scopes (the nested def/lambda itself is yielded)."""
    stack = list(reversed(node if isinstance(node, list) else [node]))
    while stack:
        n = stack.pop()
        yield n
        if isinstance(n, FUNC + (ast.Lambda, ast.ClassDef)):
            continue
        stack.extend(reversed(list(ast.iter_child_nodes(n))))


def _assigned_names(fn):
    names = set()
    for n in _shallow(fn.body):
        if isinstance(n, ast.Name) and isinstance(n.ctx, (ast.Store, ast.Del)):
            names.add(n.id)
        elif isinstance(n, FUNC + (ast.ClassDef,)):
            names.add(n.name)
        elif isinstance(n, ast.ExceptHandler) and n.name:
            names.add(n.name)
        elif isinstance(n, (ast.Import, ast.ImportFrom)):
            for a in n.names:
                names.add((a.asname or a.name).split(".")[0])
        elif isinstance(n, (ast.Global, ast.Nonlocal)):
            names.add("*scope*")
    return names


def _all_names(node):
    return {n.id for n in ast.walk(node) if isinstance(n, ast.Name)} if not isinstance(node, list) else set().union(
        *[_all_names(x) for x in node]) if node else set()


def _params(fn):
    a = fn.args
    if a.vararg or a.kwarg or a.posonlyargs:
        return None
    ps = [x.arg for x in a.args]
    defaults = {}
    for p, d in zip(reversed(a.args), reversed(a.defaults)):
        defaults[p.arg] = d
    for p, d in zip(a.kwonlyargs, a.kw_defaults):
        ps.append(p.arg)
        if d is not None:
            defaults[p.arg] = d
    return ps, defaults


def _decorator_kind(fn):
    kinds = []
    for d in fn.decorator_list:
        t = ast.unparse(d)
        if t in ("staticmethod", "classmethod"):
            kinds.append(t)
        else:
            return None
    return kinds[0] if kinds else "plain"


def _always_leaves(stmts):
    """True if every path through stmts ends in return/raise/continue/break (syntactically)."""
    if not stmts:
        return False
    last = stmts[-1]
    if isinstance(last, (ast.Return, ast.Raise)):
        return True
    if isinstance(last, ast.If):
        return bool(last.orelse) and _always_leaves(last.body) and _always_leaves(last.orelse)
    if isinstance(last, ast.With):
        return _always_leaves(last.body)
    if isinstance(last, ast.Try):
        if last.finalbody and _always_leaves(last.finalbody):
            return True
        return (_always_leaves(last.body) if not last.orelse else _always_leaves(last.orelse)) and all(
            _always_leaves(h.body) for h in last.handlers)
    return False


class _Bail(Exception):
    pass


def _has_return(stmts):
    return any(isinstance(n, ast.Return) for n in _shallow(stmts))


def _store(target, value, like):
    if isinstance(target, (ast.Tuple, ast.List)) and isinstance(value, ast.Tuple) and len(target.elts) == len(value.elts):
        # (a, b) = (x, y)  ->  a = x; b = y  when no later right-hand side reads an earlier target
        names = [t.id for t in target.elts if isinstance(t, ast.Name)]
        if len(names) == len(target.elts):
            ok = True
            for i, v in enumerate(value.elts):
                if {n.id for n in ast.walk(v) if isinstance(n, ast.Name)} & set(names[:i]):
                    ok = False
            if ok:
                out = []
                for t, v in zip(target.elts, value.elts):
                    out.extend(_store(t, v, like))
                return out
    if target is None:
        if value is None or isinstance(value, (ast.Constant, ast.Name)):
            return []
        st = ast.Expr(value=value)
    else:
        st = ast.Assign(targets=[copy.deepcopy(target)], value=value if value is not None else ast.Constant(value=None),
                        lineno=like.lineno)
    return [ast.fix_missing_locations(ast.copy_location(st, like))]


def _pass_like(n):
    return ast.copy_location(ast.Pass(), n)


def _elim_returns(stmts, target):
    """Rewrite a statement list that is in tail position so that `return v` becomes `target = v` and control falls off
    the end instead.  The statements that follow an `if` containing a return are moved into the arms that do not
    leave (duplicated only when both arms can fall through).  Raises _Bail where that is not a structured rewrite
    (return inside a loop, inside a try/with that is followed by more statements, try/else)."""
    out = []
    for i, st in enumerate(stmts):
        rest = stmts[i + 1:]
        if isinstance(st, ast.Return):
            return out + _store(target, st.value, st)
        if isinstance(st, ast.Raise):
            return out + [st]
        if isinstance(st, ast.If) and _has_return([st]):
            if rest and not (_always_leaves(st.body) or (st.orelse and _always_leaves(st.orelse))):
                if len(rest) > 6 or any(isinstance(n, FUNC + (ast.ClassDef,)) for n in rest):
                    raise _Bail("continuation would have to be duplicated")
            b = _elim_returns(list(st.body) + copy.deepcopy(rest), target)
            o = _elim_returns(list(st.orelse) + copy.deepcopy(rest), target)
            new = ast.If(test=st.test, body=b or [_pass_like(st)], orelse=o)
            return out + [ast.copy_location(new, st)]
        if isinstance(st, ast.With) and _has_return(st.body):
            if rest:
                raise _Bail("return inside a with that is followed by more statements")
            new = ast.With(items=st.items, body=_elim_returns(st.body, target) or [_pass_like(st)])
            return out + [ast.copy_location(new, st)]
        if isinstance(st, ast.Try) and _has_return([st]):
            if rest or st.orelse or _has_return(st.finalbody):
                raise _Bail("return inside a try with else/finally-return or followed by more statements")
            if target is not None and not isinstance(target, ast.Name):
                raise _Bail("store into a non-local target would move under the handlers")
            hs = [ast.copy_location(ast.ExceptHandler(type=h.type, name=h.name, body=_elim_returns(h.body, target) or [_pass_like(h)]), h)
                  for h in st.handlers]
            new = ast.Try(body=_elim_returns(st.body, target) or [_pass_like(st)], handlers=hs, orelse=[], finalbody=st.finalbody)
            return out + [ast.copy_location(new, st)]
        if _has_return([st]):
            raise _Bail("return inside %s" % type(st).__name__)
        out.append(st)
    return out


def _pure_arg(e):
    """Argument expressions that can be substituted for a parameter: evaluation has no effect and cannot be
    influenced by the callee's own statements other than through attribute writes (checked by the caller)."""
    if isinstance(e, (ast.Constant, ast.Name)):
        return True
    if isinstance(e, ast.Attribute):
        return _pure_arg(e.value)
    if isinstance(e, ast.UnaryOp):
        return _pure_arg(e.operand)
    if isinstance(e, ast.BinOp):
        return _pure_arg(e.left) and _pure_arg(e.right)
    if isinstance(e, ast.Compare):
        return _pure_arg(e.left) and all(_pure_arg(c) for c in e.comparators)
    if isinstance(e, ast.Tuple):
        return all(_pure_arg(x) for x in e.elts)
    return False


def _attr_texts(e):
    return {ast.unparse(n) for n in ast.walk(e) if isinstance(n, ast.Attribute)}


def _written_attr_texts(stmts):
    out = set()
    for n in ast.walk(ast.Module(body=stmts, type_ignores=[])):
        if isinstance(n, ast.Attribute) and isinstance(n.ctx, (ast.Store, ast.Del)):
            out.add(ast.unparse(n))
        elif isinstance(n, ast.Call):
            out.add("*call*")
    return out


class _Subst(ast.NodeTransformer):
    def __init__(self, mapping, rename):
        self.mapping = mapping  # param name -> expr (substituted at loads)
        self.rename = rename  # local name -> new name

    def visit_Name(self, node):
        if node.id in self.mapping and isinstance(node.ctx, ast.Load):
            return ast.copy_location(copy.deepcopy(self.mapping[node.id]), node)
        if node.id in self.rename:
            return ast.copy_location(ast.Name(id=self.rename[node.id], ctx=node.ctx), node)
        return node

    def visit_ExceptHandler(self, node):
        self.generic_visit(node)
        if node.name in self.rename:
            node.name = self.rename[node.name]
        return node

    def _scope(self, node):
        # nested scope: its own parameters shadow; bail out when they collide with anything we rewrite
        a = node.args
        own = {x.arg for x in list(a.posonlyargs) + list(a.args) + list(a.kwonlyargs)}
        if a.vararg:
            own.add(a.vararg.arg)
        if a.kwarg:
            own.add(a.kwarg.arg)
        if own & (set(self.mapping) | set(self.rename)):
            raise _Bail("nested scope rebinds a rewritten name")
        self.generic_visit(node)
        if isinstance(node, FUNC) and node.name in self.rename:
            node.name = self.rename[node.name]
        return node

    visit_FunctionDef = _scope
    visit_AsyncFunctionDef = _scope
    visit_Lambda = _scope


_counter = [0]


def _instantiate(fn, kind, call, recv, caller_names, stable_attr=lambda text: False):
    """Return (prelude statements, body statements) of fn specialised for this call; raises _Bail.
    recv: Name node bound to the first parameter of a method / classmethod, else None."""
    pr = _params(fn)
    if pr is None:
        raise _Bail("star parameters")
    ps, defaults = pr
    args = list(call.args)
    if any(isinstance(a, ast.Starred) for a in args) or any(k.arg is None for k in call.keywords):
        raise _Bail("star arguments")
    binding = {}
    ps_eff = list(ps)
    if recv is not None:
        if not ps_eff:
            raise _Bail("method without a receiver parameter")
        binding[ps_eff.pop(0)] = recv
    order = []
    if len(args) > len(ps_eff):
        raise _Bail("too many arguments")
    for p, a in zip(ps_eff, args):
        binding[p] = a
        order.append(p)
    for k in call.keywords:
        if k.arg in binding or k.arg not in ps_eff:
            raise _Bail("bad keyword")
        binding[k.arg] = k.value
        order.append(k.arg)
    for p in ps_eff:
        if p not in binding:
            if p not in defaults:
                raise _Bail("missing argument")
            binding[p] = defaults[p]
            order.append(p)
    body = copy.deepcopy(fn.body)
    if body and isinstance(body[0], ast.Expr) and isinstance(body[0].value, ast.Constant) and isinstance(body[0].value.value, str):
        body = body[1:]
    assigned = _assigned_names(fn)
    if "*scope*" in assigned:
        raise _Bail("global/nonlocal")
    written = _written_attr_texts(body)
    has_call = "*call*" in written
    mapping, prelude, rename = {}, [], {}
    _counter[0] += 1
    tag = "_inl%d_" % _counter[0]
    for p in [x for x in binding if x not in order] + order:
        a = binding[p]
        if isinstance(a, ast.Name) and a.id == p and p not in assigned:
            continue  # same name on both sides (self -> self)
        attrs = _attr_texts(a)
        ok = p not in assigned and _pure_arg(a) and not (attrs & written)
        if ok and attrs and has_call and not all(stable_attr(t) for t in attrs):
            ok = False  # a call in the helper could rebind the attribute between the call and the use
        if ok:
            mapping[p] = a
        else:
            new = tag + p
            rename[p] = new
            st = ast.Assign(targets=[ast.Name(id=new, ctx=ast.Store())], value=copy.deepcopy(a), lineno=call.lineno)
            prelude.append(ast.fix_missing_locations(ast.copy_location(st, call)))
    # callee locals that collide with names visible in the caller get fresh names
    for n in assigned:
        if n not in rename and n not in mapping and n in caller_names:
            rename[n] = tag + n
    for p, a in mapping.items():
        if _all_names(a) & (assigned - set(rename)):
            raise _Bail("argument would be captured by a local of the helper")
    sub = _Subst(mapping, rename)
    body = [sub.visit(s) for s in body]
    return prelude, body


def _simple_target(t):
    if isinstance(t, (ast.Name, ast.Attribute)):
        return True
    if isinstance(t, (ast.Tuple, ast.List)):
        return all(isinstance(e, ast.Name) for e in t.elts)
    return False


def _pure_load(e):
    if isinstance(e, (ast.Name, ast.Constant)):
        return True
    if isinstance(e, ast.Attribute):
        return _pure_load(e.value)
    if isinstance(e, (ast.Tuple, ast.List)):
        return all(_pure_load(x) for x in e.elts)
    if isinstance(e, ast.UnaryOp):
        return _pure_load(e.operand)
    return False


def _first_call(e):
    """The Call node that is evaluated first when e is evaluated, provided everything evaluated before it is a plain
    load (names, constants, attribute chains); None otherwise."""
    if _pure_load(e):
        return None
    if isinstance(e, ast.Call):
        seq = [e.func] + list(e.args) + [k.value for k in e.keywords]
        for x in seq:
            if isinstance(x, ast.Starred):
                x = x.value
            if _pure_load(x):
                continue
            return _first_call(x)
        return e
    if isinstance(e, ast.Attribute):
        return _first_call(e.value)
    if isinstance(e, ast.Subscript):
        return _first_call(e.value)
    if isinstance(e, ast.UnaryOp):
        return _first_call(e.operand)
    if isinstance(e, ast.BinOp):
        return _first_call(e.left) if not _pure_load(e.left) else _first_call(e.right)
    if isinstance(e, ast.Compare):
        seq = [e.left] + list(e.comparators)
        if not _pure_load(seq[0]):
            return _first_call(seq[0])
        return _first_call(seq[1]) if len(seq) == 2 else None
    if isinstance(e, ast.BoolOp):
        return _first_call(e.values[0])
    if isinstance(e, ast.IfExp):
        return _first_call(e.test)
    if isinstance(e, (ast.Tuple, ast.List)):
        for x in e.elts:
            if not _pure_load(x):
                return _first_call(x)
        return None
    if isinstance(e, (ast.Yield, ast.YieldFrom, ast.Await)):
        return _first_call(e.value) if e.value is not None else None
    return None


def _first_use_is(e, name):
    """True if the Name `name` is the first thing evaluated in e apart from local names, constants and the callee
    position of calls (so that `tmp = E; S(tmp)` and `S(E)` evaluate E at the same point)."""
    if isinstance(e, ast.Name):
        return e.id == name
    if isinstance(e, ast.Call):
        f = e.func
        if not (_pure_load(f) or False):
            return _first_use_is(f, name)
        for x in list(e.args) + [k.value for k in e.keywords]:
            if isinstance(x, ast.Starred):
                x = x.value
            if isinstance(x, ast.Constant) or (isinstance(x, ast.Name) and x.id != name):
                continue
            return _first_use_is(x, name)
        return False
    if isinstance(e, (ast.Attribute, ast.Subscript)):
        return _first_use_is(e.value, name)
    if isinstance(e, ast.UnaryOp):
        return _first_use_is(e.operand, name)
    if isinstance(e, ast.BinOp):
        if isinstance(e.left, ast.Constant) or (isinstance(e.left, ast.Name) and e.left.id != name):
            return _first_use_is(e.right, name)
        return _first_use_is(e.left, name)
    if isinstance(e, ast.Compare):
        if isinstance(e.left, ast.Constant) or (isinstance(e.left, ast.Name) and e.left.id != name):
            return len(e.comparators) == 1 and _first_use_is(e.comparators[0], name)
        return _first_use_is(e.left, name)
    if isinstance(e, ast.BoolOp):
        return _first_use_is(e.values[0], name)
    if isinstance(e, ast.IfExp):
        return _first_use_is(e.test, name)
    if isinstance(e, (ast.Tuple, ast.List)):
        for x in e.elts:
            if isinstance(x, ast.Constant) or (isinstance(x, ast.Name) and x.id != name):
                continue
            return _first_use_is(x, name)
        return False
    if isinstance(e, (ast.Yield, ast.YieldFrom, ast.Await)):
        return e.value is not None and _first_use_is(e.value, name)
    return False


def _fold_temps(fn):
    """`_inlN_x = E` immediately followed by a statement that uses `_inlN_x` once, first thing, and nowhere else in the
    function: substitute E back (the temporaries are ours, introduced by hoisting / parameter binding)."""
    loads = {}
    for n in ast.walk(fn):
        if isinstance(n, ast.Name) and n.id.startswith("_inl"):
            loads.setdefault(n.id, [0, 0])[0 if isinstance(n.ctx, ast.Load) else 1] += 1

    def block(stmts):
        i = 0
        while i < len(stmts):
            st = stmts[i]
            for field in ("body", "orelse", "finalbody"):
                b = getattr(st, field, None)
                if isinstance(b, list) and b and isinstance(b[0], ast.stmt) and not isinstance(st, FUNC + (ast.ClassDef,)):
                    block(b)
            for h in getattr(st, "handlers", None) or []:
                block(h.body)
            if (isinstance(st, ast.Assign) and len(st.targets) == 1 and isinstance(st.targets[0], ast.Name)
                    and st.targets[0].id.startswith("_inl") and loads.get(st.targets[0].id) == [1, 1] and i + 1 < len(stmts)):
                name = st.targets[0].id
                nxt = stmts[i + 1]
                field = {ast.Expr: "value", ast.Assign: "value", ast.AnnAssign: "value", ast.Return: "value", ast.If: "test",
                         ast.For: "iter"}.get(type(nxt))
                expr = getattr(nxt, field, None) if field else None
                if expr is not None and _first_use_is(expr, name):
                    setattr(nxt, field, _Replace(None, st.value, name).visit(expr))
                    del stmts[i]
                    continue
            i += 1

    block(fn.body)
    _coalesce_copies(fn)


def _coalesce_copies(fn):
    """`_inlN_y = E ... X = _inlN_y` (same block, `_inlN_y` bound once, X neither read nor written in between and not
    captured by a nested scope): bind X directly where `_inlN_y` was bound and drop the copy."""
    stores, nested_names = {}, set()
    for n in ast.walk(fn):
        if isinstance(n, ast.Name) and n.id.startswith("_inl") and isinstance(n.ctx, ast.Store):
            stores[n.id] = stores.get(n.id, 0) + 1
        if isinstance(n, FUNC + (ast.Lambda,)) and n is not fn:
            nested_names |= {x.id for x in ast.walk(n) if isinstance(x, ast.Name)}

    def names_of(stmts):
        return {x.id for st in stmts for x in ast.walk(st) if isinstance(x, ast.Name)}

    def block(stmts):
        changed = True
        while changed:
            changed = False
            for j, st in enumerate(stmts):
                if not (isinstance(st, ast.Assign) and len(st.targets) == 1 and isinstance(st.targets[0], ast.Name) and isinstance(st.value, ast.Name)):
                    continue
                tmp, x = st.value.id, st.targets[0].id
                if not tmp.startswith("_inl") or x.startswith("_inl") or stores.get(tmp) != 1 or x in nested_names or tmp in nested_names:
                    continue
                defs = [i for i in range(j) if isinstance(stmts[i], ast.Assign) and any(
                    isinstance(t, ast.Name) and t.id == tmp for t in stmts[i].targets)]
                if len(defs) != 1:
                    continue
                i = defs[0]
                if x in names_of(stmts[i:j]):
                    continue
                if tmp in names_of(stmts[j + 1:]):
                    continue
                for k in range(i, j):
                    for nd in ast.walk(stmts[k]):
                        if isinstance(nd, ast.Name) and nd.id == tmp:
                            nd.id = x
                del stmts[j]
                changed = True
                break
        for st in stmts:
            for field in ("body", "orelse", "finalbody"):
                b = getattr(st, field, None)
                if isinstance(b, list) and b and isinstance(b[0], ast.stmt) and not isinstance(st, FUNC + (ast.ClassDef,)):
                    block(b)
            for h in getattr(st, "handlers", None) or []:
                block(h.body)

    block(fn.body)


class _Replace(ast.NodeTransformer):
    """Replace one node (by identity) - or, to undo, the Name `name` - by another expression."""

    def __init__(self, old, new, name=None):
        self.old, self.new, self.name, self.done = old, new, name, False

    def visit(self, node):
        if self.old is not None and node is self.old:
            self.done = True
            return self.new
        if self.old is None and isinstance(node, ast.Name) and node.id == self.name:
            self.done = True
            return self.new
        if isinstance(node, FUNC + (ast.Lambda, ast.ClassDef)):
            return node
        return self.generic_visit(node)


class _Inliner(object):
    """scope = list of ('class'|'func', name) from the module down to the statement being rewritten."""

    def __init__(self, tree, modname, defs, new_defs):
        self.ref = reference().get(modname) or set()
        self.all_new = {q_: v_[0] for q_, v_ in new_defs.items()}  # before helpers used as values are set aside
        self.tree = tree
        self.modname = modname
        self.defs = defs  # qualified name -> def node (all defs)
        self.new_defs = new_defs  # qualified name -> (node, block owner, 'module'|'class'|'func')
        self.log = []
        self.changed = False

    def _stable_attr(self, text):
        """`self.<name>` where <name> is stored nowhere in this unit outside __init__ methods (configuration-like)."""
        parts = text.split(".")
        if len(parts) != 2 or parts[0] != "self":
            return False
        if not hasattr(self, "_stored"):
            self._stored = set()
            for q, fn in self.defs.items():
                if fn.name == "__init__":
                    continue
                for n in ast.walk(fn):
                    if isinstance(n, ast.Attribute) and isinstance(n.ctx, (ast.Store, ast.Del)):
                        self._stored.add(n.attr)
        return parts[1] not in self._stored

    @staticmethod
    def _qual(scope):
        return ".".join(n for _, n in scope)

    @staticmethod
    def _class_of(scope):
        # the class whose methods `self.x(...)` denotes: the innermost class that encloses a function of the scope
        for i in range(len(scope) - 1, -1, -1):
            if scope[i][0] == "class" and i + 1 < len(scope) and scope[i + 1][0] == "func":
                return ".".join(n for _, n in scope[: i + 1]), scope[i][1]
        return None, None

    def _callee_of(self, call, scope):
        f = call.func
        if isinstance(f, ast.Name):
            # a nested helper of an enclosing function (innermost first), then a module-level helper
            for i in range(len(scope), 0, -1):
                if scope[i - 1][0] != "func":
                    continue
                q = self._qual(scope[:i]) + "." + f.id
                if q in self.new_defs:
                    return q, None
                if q in self.defs:
                    return None, None  # shadowed by a reference function of that name
            if f.id in self.new_defs and self.new_defs[f.id][2] == "module":
                return f.id, None
            return None, None
        if isinstance(f, ast.Attribute) and isinstance(f.value, ast.Name):
            cq, cname = self._class_of(scope)
            if cq is None:
                return None, None
            q = cq + "." + f.attr
            if q not in self.new_defs:
                return None, None
            if f.value.id in ("self", "cls"):
                return q, ast.Name(id=f.value.id, ctx=ast.Load())
            if f.value.id == cname:
                return q, "class"
        return None, None

    def _drop_value_referenced(self):
        """A helper that is also used as a value (registered as a callback, stored, passed on) stays a function anyway:
        inlining only its direct calls would duplicate it, so such helpers are left alone entirely."""
        callee_nodes = set()
        for n in ast.walk(self.tree):
            if isinstance(n, ast.Call):
                callee_nodes.add(id(n.func))
        for q, (fn, owner, kind) in list(self.new_defs.items()):
            name = fn.name
            for n in ast.walk(self.tree):
                if id(n) in callee_nodes:
                    continue
                if (isinstance(n, ast.Name) and n.id == name and isinstance(n.ctx, ast.Load)) or (
                        isinstance(n, ast.Attribute) and n.attr == name and isinstance(n.ctx, ast.Load)):
                    del self.new_defs[q]
                    self.log.append("left alone %s (also used as a value)" % q)
                    break

    def run(self):
        self._drop_value_referenced()
        for _ in range(6):
            self.changed = False
            self._blocks(self.tree, [])
            if not self.changed:
                break
        self._remove_dead()

    def _blocks(self, node, scope):
        for field in ("body", "orelse", "finalbody"):
            blk = getattr(node, field, None)
            if isinstance(blk, list) and blk and isinstance(blk[0], ast.stmt):
                setattr(node, field, self._rewrite_block(blk, scope))
        for h in getattr(node, "handlers", None) or []:
            h.body = self._rewrite_block(h.body, scope)

    def _rewrite_block(self, stmts, scope):
        out = []
        for st in stmts:
            if isinstance(st, ast.ClassDef):
                self._blocks(st, scope + [("class", st.name)])
                out.append(st)
            elif isinstance(st, FUNC):
                self._blocks(st, scope + [("func", st.name)])
                out.append(st)
            else:
                out.extend(self._rewrite_stmt(st, scope))
        return out

    def _caller_names(self, scope):
        names = set()
        for i in range(len(scope), 0, -1):
            if scope[i - 1][0] != "func":
                continue
            node = self.defs.get(self._qual(scope[:i]))
            if node is not None:
                names |= {n.id for n in ast.walk(node) if isinstance(n, ast.Name)}
                names |= {a.arg for a in ast.walk(node) if isinstance(a, ast.arg)}
        return names

    def _kept_closures(self, outer):
        cache = self.__dict__.setdefault("_kept_cache", {})
        if outer in cache:
            return cache[outer]
        kept = set()
        had = {r_ for r_ in self.ref if r_.startswith(outer + ".") and "." not in r_[len(outer) + 1:]}
        have = {d_ for d_ in self.defs if d_.startswith(outer + ".") and "." not in d_[len(outer) + 1:]}
        node = self.defs.get(outer)
        lost = (had - have) if outer in self.ref and node is not None else set()
        if lost:
            all_new = dict(self.all_new)
            names = {q_.split(".")[-1]: q_ for q_ in all_new}
            called, valued = set(), set()
            callee_ids = {id(c_.func) for c_ in ast.walk(node) if isinstance(c_, ast.Call)}
            for n_ in ast.walk(node):
                nm = n_.id if isinstance(n_, ast.Name) else (n_.attr if isinstance(n_, ast.Attribute) else None)
                if nm in names and isinstance(getattr(n_, "ctx", None), ast.Load):
                    (called if id(n_) in callee_ids else valued).add(names[nm])

            def recursive(q_):
                fn_ = all_new[q_]
                return any(isinstance(c_, ast.Call) and ((isinstance(c_.func, ast.Name) and c_.func.id == fn_.name) or (
                    isinstance(c_.func, ast.Attribute) and c_.func.attr == fn_.name)) for c_ in ast.walk(fn_))

            def wiring(q_):
                fn_ = all_new[q_]
                ids_ = {id(c_.func) for c_ in ast.walk(fn_) if isinstance(c_, ast.Call)}
                return sum(1 for n_ in ast.walk(fn_) if id(n_) not in ids_ and isinstance(getattr(n_, "ctx", None), ast.Load) and (
                    (isinstance(n_, ast.Name) and n_.id in names) or (isinstance(n_, ast.Attribute) and n_.attr in names)))
            # helpers the closures themselves hand on as values count as accounted for, too
            for q_ in list(called | valued):
                fn_ = all_new[q_]
                ids_ = {id(c_.func) for c_ in ast.walk(fn_) if isinstance(c_, ast.Call)}
                for n_ in ast.walk(fn_):
                    nm = n_.id if isinstance(n_, ast.Name) else (n_.attr if isinstance(n_, ast.Attribute) else None)
                    if nm in names and id(n_) not in ids_ and isinstance(getattr(n_, "ctx", None), ast.Load):
                        valued.add(names[nm])
            accounted = valued | {q_ for q_ in called if recursive(q_)}
            missing = len(lost) - len(accounted)
            if missing > 0:
                # a lifted closure has at least the parameters it had as a closure
                try:
                    with open(os.path.join(os.path.dirname(os.path.abspath(__file__)), "reference_arity.json")) as fh:
                        arity = json.load(fh).get(self.modname, {})
                except (OSError, ValueError):
                    arity = {}
                least = min([arity.get(l_, 0) for l_ in lost] or [0])

                def nparams(q_):
                    return len([a for a in all_new[q_].args.args if a.arg not in ("self", "cls")])
                cands = sorted((q_ for q_ in called if q_ not in accounted and nparams(q_) >= least),
                               key=lambda q_: (-wiring(q_), -len(list(ast.walk(all_new[q_])))))
                kept = set(cands[:missing])
        cache[outer] = kept
        return kept

    def _inlinable(self, q, recv, scope):
        fn, owner, okind = self.new_defs[q]
        me = self._qual(scope)
        if me == q or me.startswith(q + "."):
            return None  # recursion
        if any(isinstance(c_, ast.Call) and ((isinstance(c_.func, ast.Name) and c_.func.id == fn.name) or (
                isinstance(c_.func, ast.Attribute) and c_.func.attr == fn.name)) for c_ in ast.walk(fn)):
            return None  # a helper that calls itself stays a function wherever it is called from
        # closures lifted out of a reference function: when the function we are in has lost nested functions it has in the
        # reference tree, as many of the new helpers it uses are those closures under another roof.  The ones used as values
        # (callbacks) or calling themselves stay functions anyway; if that does not account for every lost closure, the
        # directly called helpers that wire callbacks to other new helpers (then the biggest) are kept too - the rules find
        # them by what they do.  Every other new helper is an extraction and is dissolved into its caller as usual.
        for i_ in range(len(scope), 0, -1):
            if scope[i_ - 1][0] == "func":
                outer = self._qual(scope[:i_])
                if q in self._kept_closures(outer):
                    return None
                break
        kind = _decorator_kind(fn)
        if kind is None or isinstance(fn, ast.AsyncFunctionDef):
            return None
        if any(isinstance(n, (ast.Yield, ast.YieldFrom, ast.Await)) for n in _shallow(fn.body)):
            return None
        if okind == "class":
            if kind == "plain" and not isinstance(recv, ast.Name):
                return None  # ClassName.method(obj, ...) unbound call: leave
            if kind == "staticmethod":
                recv = None
            elif kind == "classmethod" and recv == "class":
                recv = ast.Name(id=q.split(".")[-2], ctx=ast.Load())
        else:
            recv = None
            if kind != "plain":
                return None
        return fn, kind, recv

    def _rewrite_stmt(self, st, scope, depth=0):
        if depth == 0:
            self._blocks(st, scope)  # compound statements: their blocks first
        if not any(k == "func" for k, _ in scope) or depth > 8:
            return [st]
        # x = A if C else B with a call of a new helper in an arm: as a statement (`if C: x = A else: x = B`) the call is
        # in a position where it can be inlined
        if isinstance(st, ast.Assign) and len(st.targets) == 1 and _simple_target(st.targets[0]) and isinstance(st.value, ast.IfExp):
            def has_new(e):
                for c_ in ast.walk(e):
                    if isinstance(c_, ast.Call):
                        q_, r_ = self._callee_of(c_, scope)
                        if q_ is not None and self._inlinable(q_, r_, scope) is not None:
                            return True
                return False
            if has_new(st.value.body) or has_new(st.value.orelse):
                def mk(v):
                    return ast.fix_missing_locations(ast.copy_location(ast.Assign(targets=[copy.deepcopy(st.targets[0])], value=v, lineno=st.lineno), st))
                new_if = ast.fix_missing_locations(ast.copy_location(ast.If(test=st.value.test, body=[mk(st.value.body)], orelse=[mk(st.value.orelse)]), st))
                self.log.append("conditional expression with a helper call turned into a statement at line %d" % getattr(st, "lineno", 0))
                self._blocks(new_if, scope)
                return [new_if]
        # x = [helper(a, b) for a, b in S] with a new helper that is more than one expression: as an explicit loop
        # (`x = []; for a, b in S: x.append(helper(a, b))`) the call is in a position where it can be inlined
        if isinstance(st, ast.Assign) and len(st.targets) == 1 and isinstance(st.targets[0], ast.Name) and isinstance(st.value, ast.ListComp) and \
                len(st.value.generators) == 1 and not st.value.generators[0].ifs and not st.value.generators[0].is_async and isinstance(st.value.elt, ast.Call):
            q_, r_ = self._callee_of(st.value.elt, scope)
            if q_ is not None and self._inlinable(q_, r_, scope) is not None:
                fn_ = self.new_defs[q_][0]
                body_ = fn_.body[1:] if fn_.body and isinstance(fn_.body[0], ast.Expr) and isinstance(fn_.body[0].value, ast.Constant) else fn_.body
                gen_ = st.value.generators[0]
                acc_ = st.targets[0].id
                uses_acc = any(isinstance(x_, ast.Name) and x_.id == acc_ for x_ in ast.walk(st.value))
                if not (len(body_) == 1 and isinstance(body_[0], ast.Return)) and not uses_acc:
                    init = ast.copy_location(ast.Assign(targets=[ast.Name(id=acc_, ctx=ast.Store())], value=ast.List(elts=[], ctx=ast.Load()), lineno=st.lineno), st)
                    app = ast.Expr(value=ast.Call(func=ast.Attribute(value=ast.Name(id=acc_, ctx=ast.Load()), attr="append", ctx=ast.Load()), args=[st.value.elt], keywords=[]))
                    loop = ast.copy_location(ast.For(target=gen_.target, iter=gen_.iter, body=[ast.copy_location(app, st)], orelse=[], lineno=st.lineno), st)
                    ast.fix_missing_locations(init)
                    ast.fix_missing_locations(loop)
                    self.log.append("comprehension over helper %s turned into a loop at line %d" % (q_, getattr(st, "lineno", 0)))
                    self.changed = True
                    self._blocks(loop, scope)
                    return [init, loop]
        # x = yield self.helper(...) / yield self.helper(...) with a new @inlineCallbacks helper: awaiting a generator-based
        # coroutine is running its body here (its own yields become ours, `return v` / returnValue(v) becomes `x = v`)
        gen_call = None
        if isinstance(st, ast.Assign) and len(st.targets) == 1 and _simple_target(st.targets[0]) and isinstance(st.value, ast.Yield) and isinstance(
                st.value.value, ast.Call):
            gen_call, gen_target = st.value.value, st.targets[0]
        elif isinstance(st, ast.Expr) and isinstance(st.value, ast.Yield) and isinstance(st.value.value, ast.Call):
            gen_call, gen_target = st.value.value, None
        if gen_call is not None:
            gq, grecv = self._callee_of(gen_call, scope)
            gfn = self.new_defs[gq][0] if gq is not None else None
            me_ = self._qual(scope)
            if gfn is not None and me_ != gq and not me_.startswith(gq + ".") and [ast.unparse(d_).split(".")[-1] for d_ in gfn.decorator_list] == ["inlineCallbacks"] \
                    and isinstance(grecv, ast.Name) and gq not in self._kept_closures(self._qual(scope)):
                try:
                    body0 = copy.deepcopy(gfn)

                    class RV(ast.NodeTransformer):
                        def visit_FunctionDef(self, node):
                            return node if node is not body0 else self.generic_visit(node)

                        def visit_Expr(self, node):
                            v_ = node.value
                            if isinstance(v_, ast.Call) and ast.unparse(v_.func).split(".")[-1] == "returnValue" and len(v_.args) <= 1:
                                return ast.copy_location(ast.Return(value=v_.args[0] if v_.args else None), node)
                            return node
                    body0 = RV().visit(body0)
                    prelude, body = _instantiate(body0, "plain", gen_call, grecv, self._caller_names(scope), self._stable_attr)
                    if not _always_leaves(body):
                        body = body + [ast.fix_missing_locations(ast.copy_location(ast.Return(value=None), st))]
                    new = prelude + _elim_returns(body, gen_target)
                    if any(isinstance(n, ast.Return) for n in _shallow(new)):
                        raise _Bail("residual return")
                    for n in new:
                        ast.fix_missing_locations(n)
                    self.changed = True
                    self.inlined_once = getattr(self, "inlined_once", set()) | {gq}
                    self.log.append("inlined coroutine helper %s at line %d" % (gq, getattr(st, "lineno", 0)))
                    return new or [_pass_like(st)]
                except _Bail as e:
                    self.log.append("not inlined coroutine helper %s at line %d: %s" % (gq, getattr(st, "lineno", 0), e))
        st = self._subst_expr_helpers(st, scope)
        call, ctx = None, None
        if isinstance(st, ast.Expr) and isinstance(st.value, ast.Call):
            call, ctx = st.value, "expr"
        elif isinstance(st, ast.Assign) and len(st.targets) == 1 and isinstance(st.value, ast.Call) and _simple_target(st.targets[0]):
            call, ctx = st.value, "assign"
        elif isinstance(st, ast.Return) and isinstance(st.value, ast.Call):
            call, ctx = st.value, "return"
        q = recv = None
        if call is not None:
            q, recv = self._callee_of(call, scope)
        if q is None:
            # a helper call nested in the statement's expression: hoist it when it is the first thing evaluated
            field = {ast.Expr: "value", ast.Assign: "value", ast.AnnAssign: "value", ast.Return: "value", ast.If: "test",
                     ast.For: "iter"}.get(type(st))
            if isinstance(st, ast.AugAssign) and isinstance(st.target, ast.Name):
                field = "value"  # a local name is not changed by evaluating the right-hand side first
            expr = getattr(st, field, None) if field else None
            if expr is None:
                return [st]
            first = _first_call(expr)
            if first is None or first is expr and ctx is not None:
                return [st]
            hq, hrecv = self._callee_of(first, scope)
            if hq is None or self._inlinable(hq, hrecv, scope) is None:
                return [st]
            _counter[0] += 1
            tmp = "_inl%d_value" % _counter[0]
            asg = ast.Assign(targets=[ast.Name(id=tmp, ctx=ast.Store())], value=first, lineno=st.lineno)
            ast.fix_missing_locations(ast.copy_location(asg, st))
            repl = _Replace(first, ast.copy_location(ast.Name(id=tmp, ctx=ast.Load()), first))
            setattr(st, field, repl.visit(expr))
            if not repl.done:
                return [st]
            a = self._rewrite_stmt(asg, scope, depth + 1)
            if len(a) == 1 and a[0] is asg:
                # could not be inlined after all: undo the hoist
                setattr(st, field, _Replace(None, first, tmp).visit(getattr(st, field)))
                return [st]
            self.log.append("hoisted helper call %s out of line %d" % (hq, getattr(st, "lineno", 0)))
            return a + self._rewrite_stmt(st, scope, depth + 1)
        ok = self._inlinable(q, recv, scope)
        if ok is None:
            return [st]
        fn, kind, recv = ok
        try:
            prelude, body = _instantiate(fn, kind, call, recv, self._caller_names(scope), self._stable_attr)
            if ctx == "return":
                new = prelude + body
                if not _always_leaves(body):
                    new.append(ast.fix_missing_locations(ast.copy_location(ast.Return(value=ast.Constant(value=None)), st)))
            else:
                if not _always_leaves(body):
                    body = body + [ast.fix_missing_locations(ast.copy_location(ast.Return(value=None), st))]
                new = prelude + _elim_returns(body, None if ctx == "expr" else st.targets[0])
                if any(isinstance(n, ast.Return) for n in _shallow(new)):
                    raise _Bail("residual return")
        except _Bail as e:
            self.log.append("not inlined %s at line %d: %s" % (q, getattr(st, "lineno", 0), e))
            return [st]
        if not new:
            new = [_pass_like(st)]
        for n in new:
            ast.fix_missing_locations(n)
        self.changed = True
        self.inlined_once = getattr(self, "inlined_once", set()) | {q}
        self.log.append("inlined %s at line %d (%s)" % (q, getattr(st, "lineno", 0), ctx))
        return new

    def _subst_expr_helpers(self, st, scope):
        inl = self

        class T(ast.NodeTransformer):
            def visit_FunctionDef(self, node):
                return node

            visit_AsyncFunctionDef = visit_FunctionDef
            visit_ClassDef = visit_FunctionDef
            visit_Lambda = visit_FunctionDef

            def visit_Call(self, node):
                self.generic_visit(node)
                q, recv = inl._callee_of(node, scope)
                if q is None:
                    return node
                ok = inl._inlinable(q, recv, scope)
                if ok is None:
                    return node
                fn, kind, recv2 = ok
                body = fn.body
                if body and isinstance(body[0], ast.Expr) and isinstance(body[0].value, ast.Constant) and isinstance(
                        body[0].value.value, str):
                    body = body[1:]
                if len(body) != 1 or not isinstance(body[0], ast.Return) or body[0].value is None:
                    return node
                if any(isinstance(n, (ast.Lambda, ast.NamedExpr) + FUNC) for n in ast.walk(body[0].value)):
                    return node
                try:
                    prelude, b = _instantiate(fn, kind, node, recv2, set(), inl._stable_attr)
                except _Bail:
                    return node
                if prelude:
                    return node  # an argument had to be bound to a local first: not an expression-level inline
                inl.changed = True
                inl.inlined_once = getattr(inl, "inlined_once", set()) | {q}
                inl.log.append("inlined expression helper %s at line %d" % (q, getattr(node, "lineno", 0)))
                return ast.copy_location(b[0].value, node)

        t = T()
        for field, val in ast.iter_fields(st):
            if field in ("body", "orelse", "finalbody", "handlers"):
                continue
            if isinstance(val, ast.AST):
                setattr(st, field, t.visit(val))
            elif isinstance(val, list):
                setattr(st, field, [t.visit(v) if isinstance(v, ast.AST) else v for v in val])
        return st

    def _remove_dead(self):
        for q, (fn, owner, _k) in list(self.new_defs.items()):
            if q not in getattr(self, "inlined_once", set()):
                continue  # never inlined: a new method nobody calls here is an entry point (an override the framework calls), not a dead helper
            name = fn.name
            inside = {id(n) for n in ast.walk(fn)}
            refs = 0
            for n in ast.walk(self.tree):
                if id(n) in inside:
                    continue
                if isinstance(n, ast.Name) and n.id == name and isinstance(n.ctx, ast.Load):
                    refs += 1
                elif isinstance(n, ast.Attribute) and n.attr == name:
                    refs += 1
                elif isinstance(n, ast.Constant) and n.value == name:
                    refs += 1  # getattr(obj, "name") style / __all__
            if refs == 0:
                for field in ("body", "orelse", "finalbody"):
                    blk = getattr(owner, field, None)
                    if isinstance(blk, list) and fn in blk:
                        blk.remove(fn)
                        if not blk and field == "body":
                            blk.append(_pass_like(fn))
                        self.log.append("removed helper %s (no reference left)" % q)


def unroll_reflective_loops(tree):
    """`for name in ("a", "b"): setattr(x, name, getattr(y, name))`  ->  `x.a = y.a; x.b = y.b`.
    A loop over a literal (or module-level, bound once) tuple/list of string constants whose body uses the loop
    variable only as the attribute name of setattr/getattr is unrolled, and setattr/getattr with a constant name become
    plain attribute stores/loads, so that reflective writes are visible to the write index like any other."""
    consts = {}
    for st in tree.body:
        if isinstance(st, ast.Assign) and len(st.targets) == 1 and isinstance(st.targets[0], ast.Name) and isinstance(st.value, (ast.Tuple, ast.List)):
            if st.value.elts and all(isinstance(e, ast.Constant) and isinstance(e.value, str) for e in st.value.elts):
                consts[st.targets[0].id] = None if st.targets[0].id in consts else st.value
    # class-level tuples of names (`_FIELDS = ("a", "b")` in a class body), reached as self.X / cls.X / Class.X
    cls_consts = {}
    for c_ in tree.body:
        if isinstance(c_, ast.ClassDef):
            seen_ = {}
            for st in c_.body:
                if isinstance(st, ast.Assign) and len(st.targets) == 1 and isinstance(st.targets[0], ast.Name):
                    nm_ = st.targets[0].id
                    seen_[nm_] = seen_.get(nm_, 0) + 1
                    if isinstance(st.value, (ast.Tuple, ast.List)) and st.value.elts and all(
                            isinstance(e, ast.Constant) and isinstance(e.value, str) for e in st.value.elts):
                        cls_consts[(c_.name, nm_)] = st.value
            for (cn_, nm_) in [k for k in cls_consts if k[0] == c_.name]:
                if seen_.get(nm_) != 1 or any(isinstance(x, ast.Attribute) and x.attr == nm_ and isinstance(x.ctx, ast.Store) for x in ast.walk(c_)):
                    del cls_consts[(cn_, nm_)]
    cur_cls = [None]
    log = []

    class Fold(ast.NodeTransformer):
        def visit_Expr(self, node):
            self.generic_visit(node)
            c = node.value
            if isinstance(c, ast.Call) and isinstance(c.func, ast.Name) and c.func.id == "setattr" and len(c.args) == 3 and not c.keywords and \
                    isinstance(c.args[1], ast.Constant) and isinstance(c.args[1].value, str) and c.args[1].value.isidentifier():
                tgt = ast.Attribute(value=c.args[0], attr=c.args[1].value, ctx=ast.Store())
                return ast.copy_location(ast.Assign(targets=[tgt], value=c.args[2], lineno=node.lineno), node)
            return node

        def visit_Call(self, node):
            self.generic_visit(node)
            if isinstance(node.func, ast.Name) and node.func.id == "getattr" and len(node.args) == 2 and not node.keywords and \
                    isinstance(node.args[1], ast.Constant) and isinstance(node.args[1].value, str) and node.args[1].value.isidentifier():
                return ast.copy_location(ast.Attribute(value=node.args[0], attr=node.args[1].value, ctx=ast.Load()), node)
            return node

    def reflective_only(body, var):
        """the loop variable occurs only as the name argument of setattr/getattr"""
        ok_ids = set()
        for n in ast.walk(ast.Module(body=body, type_ignores=[])):
            if isinstance(n, ast.Call) and isinstance(n.func, ast.Name) and n.func.id in ("setattr", "getattr") and len(n.args) >= 2 and \
                    isinstance(n.args[1], ast.Name) and n.args[1].id == var:
                ok_ids.add(id(n.args[1]))
        uses = [n for n in ast.walk(ast.Module(body=body, type_ignores=[])) if isinstance(n, ast.Name) and n.id == var]
        return bool(uses) and all(id(n) in ok_ids for n in uses)

    def visit_block(stmts):
        out = []
        for st in stmts:
            for field in ("body", "orelse", "finalbody"):
                b = getattr(st, field, None)
                if isinstance(b, list) and b and isinstance(b[0], ast.stmt):
                    setattr(st, field, visit_block(b))
            for h in getattr(st, "handlers", None) or []:
                h.body = visit_block(h.body)
            if isinstance(st, ast.For) and isinstance(st.target, ast.Name) and not st.orelse:
                it = st.iter
                if isinstance(it, ast.Name) and consts.get(it.id) is not None:
                    it = consts[it.id]
                elif isinstance(it, ast.Attribute) and isinstance(it.value, ast.Name):
                    owner_ = cur_cls[0] if it.value.id in ("self", "cls") else it.value.id
                    if (owner_, it.attr) in cls_consts:
                        it = cls_consts[(owner_, it.attr)]
                if isinstance(it, (ast.Tuple, ast.List)) and 0 < len(it.elts) <= 8 and all(
                        isinstance(e, ast.Constant) and isinstance(e.value, str) for e in it.elts) and (
                        reflective_only(st.body, st.target.id) or not any(isinstance(x, ast.Name) and x.id == st.target.id and isinstance(x.ctx, ast.Store)
                                                                          for b in st.body for x in ast.walk(b))) and not any(
                        isinstance(x, (ast.Break, ast.Continue, ast.Return) + FUNC) for b in st.body for x in ast.walk(b)):
                    for e in it.elts:
                        for b in st.body:
                            nb = _Replace(None, ast.Constant(value=e.value), st.target.id).visit(copy.deepcopy(b))
                            out.append(ast.fix_missing_locations(Fold().visit(nb)))
                    log.append("unrolled loop over a literal tuple of %d names at line %d" % (len(it.elts), st.lineno))
                    continue
            out.append(st)
        return out

    def do(node, cls_name):
        for ch in ast.iter_child_nodes(node):
            if isinstance(ch, ast.ClassDef):
                do(ch, ch.name)
            elif isinstance(ch, FUNC):
                cur_cls[0] = cls_name
                ch.body = visit_block(ch.body)
                do(ch, cls_name)
            else:
                do(ch, cls_name)
    do(tree, None)
    if log:
        ast.fix_missing_locations(tree)
    return log


_REFC = None


def inline_new_constants(tree, modname):
    """A module-level `NAME = <None | True | False | 0>` bound once, never re-bound anywhere in the unit and not present in
    the reference tree (a named sentinel or limit introduced by the change under analysis) is replaced by its value in every
    function of the unit: `x is _UNDISCOVERED` reads `x is None` again."""
    global _REFC
    if _REFC is None:
        p = os.path.join(os.path.dirname(os.path.abspath(__file__)), "reference_constants.json")
        try:
            with open(p) as fh:
                _REFC = json.load(fh)
        except OSError:
            _REFC = {}
    known = set(_REFC.get(modname, ())) if modname in _REFC else None
    if known is None:
        return []
    cand = {}
    for st in tree.body:
        # (sentinels only - None, True, False, 0: a named number such as a shift width or a limit stays a name, rules that
        # evaluate constants resolve those themselves)
        if isinstance(st, ast.Assign) and len(st.targets) == 1 and isinstance(st.targets[0], ast.Name) and isinstance(st.value, ast.Constant) and (
                st.value.value is None or isinstance(st.value.value, bool) or (isinstance(st.value.value, int) and st.value.value == 0)):
            nm = st.targets[0].id
            cand[nm] = None if nm in cand else st.value
    stores = {}
    for n in ast.walk(tree):
        if isinstance(n, ast.Name) and isinstance(n.ctx, (ast.Store, ast.Del)):
            stores[n.id] = stores.get(n.id, 0) + 1
        if isinstance(n, (ast.Global, ast.Nonlocal)):
            for nm in n.names:
                stores[nm] = stores.get(nm, 0) + 2
        if isinstance(n, ast.arg):
            stores[n.arg] = stores.get(n.arg, 0) + 2
    cand = {k: v for k, v in cand.items() if v is not None and k not in known and stores.get(k) == 1}
    if not cand:
        return []
    log = []

    class Sub(ast.NodeTransformer):
        def visit_Name(self, node):
            if isinstance(node.ctx, ast.Load) and node.id in cand:
                hit.add(node.id)
                return ast.copy_location(ast.Constant(value=cand[node.id].value), node)
            return node
    hit = set()
    for fn in [n for n in ast.walk(tree) if isinstance(n, FUNC)]:
        Sub().visit(fn)
    for k in sorted(hit):
        log.append("new module constant %s replaced by its value %r" % (k, cand[k].value))
    if log:
        ast.fix_missing_locations(tree)
    return log


def drain_loops_to_for(tree):
    """`q = deque(E)` (or `list(E)`) followed by `while q: v = q.popleft()` (or `q.pop(0)`) `; BODY`, `q` used for nothing
    else: the loop visits the elements of the snapshot in order - `for v in list(E): BODY`."""
    log = []
    for fn in [n for n in ast.walk(tree) if isinstance(n, FUNC)]:
        uses = {}
        for n in _shallow(fn.body):
            if isinstance(n, ast.Name):
                uses[n.id] = uses.get(n.id, 0) + 1
        nested_uses = {y.id for x in ast.walk(fn) if isinstance(x, FUNC + (ast.Lambda,)) and x is not fn for y in ast.walk(x) if isinstance(y, ast.Name)}

        def block(stmts):
            i = 0
            while i < len(stmts):
                st = stmts[i]
                for field in ("body", "orelse", "finalbody"):
                    b = getattr(st, field, None)
                    if isinstance(b, list) and b and isinstance(b[0], ast.stmt) and not isinstance(st, FUNC + (ast.ClassDef,)):
                        block(b)
                for h in getattr(st, "handlers", None) or []:
                    block(h.body)
                if (isinstance(st, ast.Assign) and len(st.targets) == 1 and isinstance(st.targets[0], ast.Name) and isinstance(st.value, ast.Call)
                        and isinstance(st.value.func, ast.Name) and st.value.func.id in ("deque", "list") and len(st.value.args) == 1 and not st.value.keywords
                        and i + 1 < len(stmts) and isinstance(stmts[i + 1], ast.While) and not stmts[i + 1].orelse):
                    q = st.targets[0].id
                    w = stmts[i + 1]
                    first = w.body[0] if w.body else None
                    if (isinstance(w.test, ast.Name) and w.test.id == q and uses.get(q) == 3 and q not in nested_uses and isinstance(first, ast.Assign)
                            and len(first.targets) == 1 and isinstance(first.targets[0], ast.Name) and isinstance(first.value, ast.Call)
                            and isinstance(first.value.func, ast.Attribute) and isinstance(first.value.func.value, ast.Name) and first.value.func.value.id == q
                            and ((first.value.func.attr == "popleft" and not first.value.args) or (first.value.func.attr == "pop" and len(first.value.args) == 1 and isinstance(
                                first.value.args[0], ast.Constant) and first.value.args[0].value == 0))
                            and not any(isinstance(x, ast.Break) for b in w.body for x in ast.walk(b))):
                        loop = ast.For(target=ast.Name(id=first.targets[0].id, ctx=ast.Store()),
                                       iter=ast.Call(func=ast.Name(id="list", ctx=ast.Load()), args=[st.value.args[0]], keywords=[]),
                                       body=w.body[1:] or [ast.Pass()], orelse=[], type_comment=None)
                        ast.copy_location(loop, w)
                        stmts[i:i + 2] = [loop]
                        log.append("drain loop over `%s` -> for loop over the snapshot at line %d" % (q, st.lineno))
                        continue
                i += 1
        block(fn.body)
    if log:
        ast.fix_missing_locations(tree)
    return log


def fold_single_use_conditions(tree):
    """`flag = <condition>` immediately followed by `if flag:` / `if not flag:` where `flag` is bound once and read only
    there: the condition goes back into the test (`stopped_by_us = f.check(X) and not self.consumers; if not stopped_by_us:`).
    Only for conditions proper - comparisons, boolean operators, `not`, isinstance / `.check(...)` calls."""
    log = []

    def is_condition(e):
        if isinstance(e, (ast.Compare, ast.BoolOp)):
            return True
        if isinstance(e, ast.UnaryOp) and isinstance(e.op, ast.Not):
            return True
        if isinstance(e, ast.Call) and ((isinstance(e.func, ast.Name) and e.func.id in ("isinstance", "hasattr", "callable", "bool")) or (
                isinstance(e.func, ast.Attribute) and e.func.attr in ("check", "active", "connected", "startswith", "endswith"))):
            return True
        return False

    for fn in [n for n in ast.walk(tree) if isinstance(n, FUNC)]:
        counts = {}
        for n in _shallow(fn.body):
            if isinstance(n, ast.Name):
                counts.setdefault(n.id, [0, 0])[0 if isinstance(n.ctx, ast.Load) else 1] += 1
        nested_uses = {y.id for x in ast.walk(fn) if isinstance(x, FUNC + (ast.Lambda,)) and x is not fn for y in ast.walk(x) if isinstance(y, ast.Name)}

        def block(stmts):
            i = 0
            while i < len(stmts):
                st = stmts[i]
                for field in ("body", "orelse", "finalbody"):
                    b = getattr(st, field, None)
                    if isinstance(b, list) and b and isinstance(b[0], ast.stmt) and not isinstance(st, FUNC + (ast.ClassDef,)):
                        block(b)
                for h in getattr(st, "handlers", None) or []:
                    block(h.body)
                if (isinstance(st, ast.Assign) and len(st.targets) == 1 and isinstance(st.targets[0], ast.Name) and is_condition(st.value)
                        and counts.get(st.targets[0].id) == [1, 1] and st.targets[0].id not in nested_uses and i + 1 < len(stmts)
                        and isinstance(stmts[i + 1], ast.If)):
                    name = st.targets[0].id
                    t = stmts[i + 1].test
                    if (isinstance(t, ast.Name) and t.id == name) or (isinstance(t, ast.UnaryOp) and isinstance(t.op, ast.Not) and isinstance(t.operand, ast.Name)
                                                                       and t.operand.id == name):
                        stmts[i + 1].test = _Replace(None, st.value, name).visit(t)
                        log.append("condition `%s` folded into its only test at line %d" % (name, st.lineno))
                        del stmts[i]
                        continue
                i += 1
        block(fn.body)
    if log:
        ast.fix_missing_locations(tree)
    return log


def unroll_table_dispatch(tree):
    """Data-driven dispatch over a small literal table becomes the if-ladder it stands for:

        blockers = ((self._stopping, "stopping"), (self._busy, "busy"))
        why = next((reason for flag, reason in blockers if flag), None)
            ->  if self._stopping: why = "stopping" / elif self._busy: why = "busy" / else: why = None

        for classes, action in ((A, B), f), ((C,), g)):          (table literal, or a local bound once to one)
            if isinstance(e, classes):
                action(x)
                break
            ->  if isinstance(e, (A, B)): f(x) / elif isinstance(e, (C,)): g(x)

    Only when every row is a tuple of side-effect-free loads of the same arity as the target, there are at most 8 rows,
    the row variables are used nowhere else, and - for rows that read attributes - the table is built by the statement
    just before its use (so that evaluating an element at the use site gives the value the table held)."""
    log = []

    def stores(fn, name):
        return [n for n in ast.walk(fn) if isinstance(n, ast.Name) and n.id == name and isinstance(n.ctx, (ast.Store, ast.Del))]

    def rows_of(fn, block, idx, e, target):
        """(rows, bind statement or None) for the iterable `e` consumed by block[idx]"""
        bind = None
        if isinstance(e, ast.Name):
            binds = [st for st in ast.walk(fn) if isinstance(st, ast.Assign) and len(st.targets) == 1 and isinstance(st.targets[0], ast.Name)
                     and st.targets[0].id == e.id]
            if len(binds) != 1 or len(stores(fn, e.id)) != 1:
                return None, None
            bind = binds[0]
            e = bind.value
        if not isinstance(e, (ast.Tuple, ast.List)) or not (0 < len(e.elts) <= 8):
            return None, None
        names = [t.id for t in target.elts] if isinstance(target, ast.Tuple) and all(isinstance(t, ast.Name) for t in target.elts) else None
        if not names or len(set(names)) != len(names):
            return None, None
        rows = []
        attr_reads = False
        for r_ in e.elts:
            if not isinstance(r_, (ast.Tuple, ast.List)) or len(r_.elts) != len(names) or not all(_pure_load(x) for x in r_.elts):
                return None, None
            attr_reads = attr_reads or any(isinstance(y, ast.Attribute) for x in r_.elts for y in ast.walk(x))
            # plain names in a row must be stable: bound at most once in the function (a def, a parameter, a global)
            for x in r_.elts:
                for y in ast.walk(x):
                    if isinstance(y, ast.Name) and len(stores(fn, y.id)) > 1:
                        return None, None
            rows.append(r_.elts)
        if attr_reads:
            # the elements are read when the table is built: accept only a table built right before its use
            if bind is not None and not (idx > 0 and block[idx - 1] is bind):
                return None, None
        return (names, rows), bind

    def subst(node, names, row):
        node = copy.deepcopy(node)
        for nm, val in zip(names, row):
            if isinstance(node, list):
                node = [_Replace(None, copy.deepcopy(val), nm).visit(x) for x in node]
            else:
                node = _Replace(None, copy.deepcopy(val), nm).visit(node)
        return node

    def used_in_closures(nodes, names):
        for n in nodes:
            for x in ast.walk(n):
                if isinstance(x, FUNC + (ast.Lambda,)):
                    if any(isinstance(y, ast.Name) and y.id in names for y in ast.walk(x)):
                        return True
        return False

    def uses_outside(fn, names, inside):
        ins = {id(y) for n in inside for y in ast.walk(n)}
        return any(isinstance(y, ast.Name) and y.id in names and id(y) not in ins for y in ast.walk(fn))

    def ladder(arms, orelse):
        """arms = [(test, body)] -> nested If"""
        cur = orelse
        for test, body in reversed(arms):
            cur = [ast.If(test=test, body=body or [ast.Pass()], orelse=cur)]
        return cur

    def rewrite_block(fn, block):
        out = list(block)
        i = 0
        changed = False
        while i < len(out):
            st = out[i]
            for field in ("body", "orelse", "finalbody"):
                b = getattr(st, field, None)
                if isinstance(b, list) and b and isinstance(b[0], ast.stmt) and not isinstance(st, FUNC + (ast.ClassDef,)):
                    nb, ch = rewrite_block(fn, b)
                    if ch:
                        setattr(st, field, nb)
                        changed = True
            for h in getattr(st, "handlers", None) or []:
                nb, ch = rewrite_block(fn, h.body)
                if ch:
                    h.body = nb
                    changed = True
            new = None
            # (1) x = next((ELT for T in TABLE if C), DEFAULT)
            if isinstance(st, ast.Assign) and len(st.targets) == 1 and isinstance(st.targets[0], ast.Name) and isinstance(st.value, ast.Call) and \
                    isinstance(st.value.func, ast.Name) and st.value.func.id == "next" and len(st.value.args) == 2 and not st.value.keywords and \
                    isinstance(st.value.args[0], ast.GeneratorExp) and len(st.value.args[0].generators) == 1 and _pure_load(st.value.args[1]):
                g = st.value.args[0]
                gen = g.generators[0]
                tab, bind = rows_of(fn, out, i, gen.iter, gen.target) if not gen.is_async else (None, None)
                if tab is not None and not used_in_closures([g.elt] + gen.ifs, set(tab[0])) and not uses_outside(fn, set(tab[0]), [g]):
                    names, rows = tab
                    arms = []
                    for row in rows:
                        tests = [subst(t, names, row) for t in gen.ifs]
                        test = tests[0] if len(tests) == 1 else (ast.BoolOp(op=ast.And(), values=tests) if tests else ast.Constant(value=True))
                        arms.append((test, [ast.Assign(targets=[copy.deepcopy(st.targets[0])], value=subst(g.elt, names, row), lineno=st.lineno)]))
                    new = ladder(arms, [ast.Assign(targets=[copy.deepcopy(st.targets[0])], value=st.value.args[1], lineno=st.lineno)])
                    log.append("next() over a literal table of %d rows -> if-ladder at line %d" % (len(rows), st.lineno))
            # (2) for T in TABLE: if C: S; break      /      for T in TABLE: S
            elif isinstance(st, ast.For) and not st.orelse and isinstance(st.target, ast.Tuple):
                tab, bind = rows_of(fn, out, i, st.iter, st.target)
                body = st.body
                jumps = [x for b in body for x in ast.walk(b) if isinstance(x, (ast.Break, ast.Continue))]
                nested_loops = any(isinstance(x, (ast.For, ast.While)) for b in body for x in ast.walk(b))
                if tab is not None and not nested_loops and not used_in_closures(body, set(tab[0])) and not uses_outside(fn, set(tab[0]), [st]) and not any(
                        isinstance(x, ast.Name) and x.id in tab[0] and isinstance(x.ctx, ast.Store) for b in body for x in ast.walk(b)):
                    names, rows = tab
                    if len(body) == 1 and isinstance(body[0], ast.If) and not body[0].orelse and body[0].body and isinstance(body[0].body[-1], ast.Break) \
                            and len(jumps) == 1:
                        arms = [(subst(body[0].test, names, row), subst(body[0].body[:-1], names, row)) for row in rows]
                        new = ladder(arms, [])
                        log.append("first-match loop over a literal table of %d rows -> if-ladder at line %d" % (len(rows), st.lineno))
                    elif not jumps:
                        new = [x for row in rows for x in subst(body, names, row)]
                        log.append("loop over a literal table of %d rows unrolled at line %d" % (len(rows), st.lineno))
            if new is not None:
                for x in new:
                    ast.copy_location(x, st)
                out[i:i + 1] = new
                changed = True
                # drop the table's binding when nothing reads it any more
                if bind is not None and not any(isinstance(y, ast.Name) and y.id == bind.targets[0].id and isinstance(y.ctx, ast.Load)
                                                for y in ast.walk(ast.Module(body=[z for z in ast.walk(fn) if isinstance(z, ast.stmt) and z is not st], type_ignores=[]))
                                                if True):
                    pass
                i += len(new)
                continue
            i += 1
        return out, changed

    for fn in [n for n in ast.walk(tree) if isinstance(n, FUNC)]:
        nb, ch = rewrite_block(fn, fn.body)
        if ch:
            fn.body = nb
    if log:
        # table bindings nobody reads any more
        for fn in [n for n in ast.walk(tree) if isinstance(n, FUNC)]:
            loads = {}
            for y in ast.walk(fn):
                if isinstance(y, ast.Name) and isinstance(y.ctx, ast.Load):
                    loads[y.id] = loads.get(y.id, 0) + 1

            def prune(block):
                keep = []
                for st in block:
                    if isinstance(st, ast.Assign) and len(st.targets) == 1 and isinstance(st.targets[0], ast.Name) and isinstance(st.value, (ast.Tuple, ast.List)) \
                            and st.value.elts and all(isinstance(r_, (ast.Tuple, ast.List)) and all(_pure_load(x) for x in r_.elts) for r_ in st.value.elts) \
                            and loads.get(st.targets[0].id, 0) == 0:
                        # its own element loads no longer count either way: a dead pure binding
                        continue
                    for field in ("body", "orelse", "finalbody"):
                        b = getattr(st, field, None)
                        if isinstance(b, list) and b and isinstance(b[0], ast.stmt) and not isinstance(st, FUNC + (ast.ClassDef,)):
                            setattr(st, field, prune(b) or [ast.Pass()])
                    for h in getattr(st, "handlers", None) or []:
                        h.body = prune(h.body) or [ast.Pass()]
                    keep.append(st)
                return keep
            fn.body = prune(fn.body) or [ast.Pass()]
        ast.fix_missing_locations(tree)
    return log


def inline_new_helpers(tree, modname):
    """Inline the functions of this unit that are not part of the reference tree.  Returns a log of what was done."""
    ref = reference().get(modname)
    if ref is None:
        return []
    log = []
    # to a fixed point: a callback that was handed to an inlined higher-order helper is now called directly, and can
    # be inlined in the next round
    for _round in range(3):
        quads = def_paths(tree)
        new = {q: (n, owner, kind) for q, n, owner, kind in quads if q not in ref}
        if not new:
            break
        inl = _Inliner(tree, modname, {q: n for q, n, _, _ in quads}, new)
        inl.run()
        done = any(l.startswith(("inlined", "hoisted")) for l in inl.log)
        log += inl.log if (done or not log) else []
        if not done:
            break
        for n in ast.walk(tree):
            if isinstance(n, FUNC):
                _fold_temps(n)
    ast.fix_missing_locations(tree)
    return log


# ------------------------------------------------------------------ local names for a callable
def _simple_lambda(e):
    """lambda a, b: <expression without nested scopes>"""
    if not isinstance(e, ast.Lambda):
        return False
    a = e.args
    if a.vararg or a.kwarg or a.posonlyargs or a.kwonlyargs or a.defaults:
        return False
    return not any(isinstance(n, (ast.Lambda, ast.ListComp, ast.SetComp, ast.DictComp, ast.GeneratorExp, ast.NamedExpr, ast.Yield, ast.YieldFrom, ast.Await))
                   for n in ast.walk(e.body))


def inline_callable_aliases(tree):
    """`pack = cls._INT32.pack` / `decode = KafkaCodec.decode_x` / `log_it = self._log` bound once in a function body
    and only ever called: each `pack(a)` becomes `cls._INT32.pack(a)` and the binding goes.  The bound expression is an
    attribute chain rooted at `cls`, at a name the function never binds (a module-level name), or `self.<method>` for a
    method defined in this unit - evaluating it again at the call site yields the same callable."""
    log = []
    methods = {n.name for c in ast.walk(tree) if isinstance(c, ast.ClassDef) for n in c.body if isinstance(n, FUNC)}

    def stable(e, local):
        chain = []
        while isinstance(e, ast.Attribute):
            chain.append(e.attr)
            e = e.value
        if not isinstance(e, ast.Name) or not chain:
            return False
        if e.id == "self":
            return len(chain) == 1 and chain[0] in methods
        return e.id == "cls" or e.id not in local

    for fn in [n for n in ast.walk(tree) if isinstance(n, FUNC)]:
        local = _assigned_names(fn) | {a.arg for a in ast.walk(fn.args) if isinstance(a, ast.arg)} - {"cls"}
        if "*scope*" in local:
            continue
        for i, st in enumerate(list(fn.body)):
            if not (isinstance(st, ast.Assign) and len(st.targets) == 1 and isinstance(st.targets[0], ast.Name)
                    and ((isinstance(st.value, ast.Attribute) and stable(st.value, local)) or _simple_lambda(st.value))):
                continue
            name = st.targets[0].id
            uses = [n for n in ast.walk(fn) if isinstance(n, ast.Name) and n.id == name]
            stores = [n for n in uses if not isinstance(n.ctx, ast.Load)]
            if len(stores) != 1 or any(isinstance(a, ast.arg) and a.arg == name for a in ast.walk(fn)):
                continue
            if st not in fn.body:
                continue
            j = fn.body.index(st)
            later = {id(n) for b in fn.body[j + 1:] for n in ast.walk(b)}
            loads = [n for n in uses if isinstance(n.ctx, ast.Load)]
            if not loads or any(id(n) not in later for n in loads):
                continue
            called = {id(c.func) for b in fn.body[j + 1:] for c in ast.walk(b) if isinstance(c, ast.Call)}
            if any(id(n) not in called for n in loads):
                continue

            lam = st.value if isinstance(st.value, ast.Lambda) else None
            if lam is not None:
                ps = [a.arg for a in lam.args.args]
                sites = [c for b in fn.body[j + 1:] for c in ast.walk(b) if isinstance(c, ast.Call) and isinstance(c.func, ast.Name)
                         and c.func.id == name]
                uses_of = {p: sum(1 for n in ast.walk(lam.body) if isinstance(n, ast.Name) and n.id == p) for p in ps}
                if any(c.keywords or len(c.args) != len(ps) or any(isinstance(a, ast.Starred) for a in c.args) or
                       any(not (isinstance(a, (ast.Name, ast.Constant)) or (_pure_arg(a) and uses_of[p] <= 1)) for p, a in zip(ps, c.args))
                       for c in sites):
                    continue

            class R(ast.NodeTransformer):
                def visit_Call(self, node):
                    self.generic_visit(node)
                    if isinstance(node.func, ast.Name) and node.func.id == name:
                        import copy
                        if lam is not None:
                            m = dict(zip(ps, node.args))

                            class S(ast.NodeTransformer):
                                def visit_Name(self, n):
                                    return copy.deepcopy(m[n.id]) if n.id in m and isinstance(n.ctx, ast.Load) else n
                            return ast.copy_location(S().visit(copy.deepcopy(lam.body)), node)
                        node.func = ast.copy_location(copy.deepcopy(st.value), node.func)
                    return node
            for b in fn.body[j + 1:]:
                R().visit(b)
            fn.body.remove(st)
            if not fn.body:
                fn.body.append(ast.Pass())
            log.append("callable alias %s = %s replaced at its %d call sites in %s" % (name, ast.unparse(st.value), len(loads), fn.name))
    if log:
        ast.fix_missing_locations(tree)
    return log


# ------------------------------------------------------------------ callbacks that only pass their argument on
def eta_reduce_callbacks(tree):
    """`def cb(x): return self.m(x, a, b)` nested in F and used only as a Deferred callback (`d.addCallback(cb)`,
    `d.addCallbacks(cb, eb)`): the registration becomes `d.addCallback(self.m, a, b)` /
    `d.addCallbacks(self.m, ..., callbackArgs=(a, b), ...)` and the closure goes.  `a`, `b` are names bound exactly once in
    F (so binding them at registration time or reading them when the callback runs is the same)."""
    log = []
    for fn in [n for n in ast.walk(tree) if isinstance(n, FUNC)]:
        stores = {}
        for n in ast.walk(fn):
            if isinstance(n, ast.Name) and isinstance(n.ctx, (ast.Store, ast.Del)):
                stores[n.id] = stores.get(n.id, 0) + 1
            elif isinstance(n, ast.arg):
                stores[n.arg] = stores.get(n.arg, 0) + 1
        cands = {}
        for g in [x for x in fn.body if isinstance(x, ast.FunctionDef)] + [x for b in ast.walk(fn) if isinstance(b, (ast.If, ast.With, ast.Try)) for x in getattr(b, "body", []) if isinstance(x, ast.FunctionDef)]:
            if g.decorator_list or g.args.vararg or g.args.kwarg or g.args.kwonlyargs or g.args.defaults or len(g.args.args) != 1:
                continue
            body = g.body
            if body and isinstance(body[0], ast.Expr) and isinstance(body[0].value, ast.Constant) and isinstance(body[0].value.value, str):
                body = body[1:]
            if len(body) != 1 or not isinstance(body[0], ast.Return) or not isinstance(body[0].value, ast.Call):
                continue
            call = body[0].value
            p = g.args.args[0].arg
            if call.keywords or not call.args or not (isinstance(call.args[0], ast.Name) and call.args[0].id == p):
                continue
            if not _pure_arg(call.func) or any(isinstance(x, ast.Name) and x.id in (p, g.name) for x in ast.walk(call.func)):
                continue
            extra = call.args[1:]
            if not all(isinstance(a, ast.Constant) or (isinstance(a, ast.Name) and a.id != p and stores.get(a.id, 0) == 1) for a in extra):
                continue
            cands[g.name] = (g, call.func, extra)
        if not cands:
            continue
        # every reference of the closure is a handler position of a registration without further arguments
        ok_names = set(cands)
        handler_ids = {}
        for c in ast.walk(fn):
            if isinstance(c, ast.Call) and isinstance(c.func, ast.Attribute) and c.func.attr in _REG:
                if c.func.attr == "addCallbacks":
                    pos = [a for a in c.args[:2]]
                    clean = len(c.args) <= 2 and not [k for k in c.keywords if k.arg in ("callbackArgs", "errbackArgs", "callbackKeywords", "errbackKeywords")]
                else:
                    pos = c.args[:1]
                    clean = len(c.args) == 1 and not c.keywords
                for a in pos:
                    if isinstance(a, ast.Name) and a.id in cands:
                        if clean:
                            handler_ids[id(a)] = c
                        else:
                            ok_names.discard(a.id)
        for n in ast.walk(fn):
            if isinstance(n, ast.Name) and n.id in cands and isinstance(n.ctx, ast.Load) and id(n) not in handler_ids:
                ok_names.discard(n.id)
        for c in {id(v): v for v in handler_ids.values()}.values():
            names_here = [a.id for a in (c.args[:2] if c.func.attr == "addCallbacks" else c.args[:1]) if isinstance(a, ast.Name) and a.id in ok_names]
            if not names_here:
                continue
            if c.func.attr == "addCallbacks":
                for idx, kw in ((0, "callbackArgs"), (1, "errbackArgs")):
                    if idx < len(c.args) and isinstance(c.args[idx], ast.Name) and c.args[idx].id in ok_names:
                        g, func_, extra = cands[c.args[idx].id]
                        c.args[idx] = copy.deepcopy(func_)
                        if extra:
                            c.keywords.append(ast.keyword(arg=kw, value=ast.Tuple(elts=[copy.deepcopy(a) for a in extra], ctx=ast.Load())))
            else:
                g, func_, extra = cands[c.args[0].id]
                c.args = [copy.deepcopy(func_)] + [copy.deepcopy(a) for a in extra]
            log.append("callback closure(s) %s replaced by the function they pass their argument to at line %d" % (", ".join(names_here), getattr(c, "lineno", 0)))
        for name in ok_names:
            g = cands[name][0]
            for owner in ast.walk(fn):
                for field in ("body", "orelse", "finalbody"):
                    blk = getattr(owner, field, None)
                    if isinstance(blk, list) and g in blk:
                        blk.remove(g)
                        if not blk:
                            blk.append(ast.Pass())
    if log:
        ast.fix_missing_locations(tree)
    return log


# ------------------------------------------------------------------ conditional expressions as statements
def ifexp_to_statement(tree):
    """`x = A if C else B`  ->  `if C: x = A  else: x = B` (one target, at statement level; nested conditional expressions
    in the arms are split in turn).  The arms then carry the outcome of C as guard facts like any other branch."""
    log = []

    def conv(st):
        if isinstance(st, ast.Assign) and len(st.targets) == 1 and isinstance(st.value, ast.IfExp) and _simple_target(st.targets[0]):
            # `x = D if x is None else x` (a default for a missing argument) stays an expression: nothing branches on it
            tt = ast.unparse(st.targets[0])
            if tt in (ast.unparse(st.value.body), ast.unparse(st.value.orelse)) and tt in {ast.unparse(x) for x in ast.walk(st.value.test)}:
                return None

            def mk(v):
                a = ast.copy_location(ast.Assign(targets=[copy.deepcopy(st.targets[0])], value=v, lineno=st.lineno), st)
                return conv(a) or [a]
            new_if = ast.copy_location(ast.If(test=st.value.test, body=mk(st.value.body), orelse=mk(st.value.orelse)), st)
            log.append("conditional expression assigned at line %d turned into a statement" % getattr(st, "lineno", 0))
            return [new_if]
        return None

    def block(stmts):
        res = []
        for st in stmts:
            for field in ("body", "orelse", "finalbody"):
                sub = getattr(st, field, None)
                if isinstance(sub, list) and sub and isinstance(sub[0], ast.stmt):
                    setattr(st, field, block(sub))
            for h in getattr(st, "handlers", []) or []:
                h.body = block(h.body)
            r_ = conv(st)
            res.extend(r_ if r_ else [st])
        return res

    tree.body = block(tree.body)
    if log:
        ast.fix_missing_locations(tree)
    return log


# ------------------------------------------------------------------ tuple temporaries
def scalarize_tuple_locals(tree):
    """A local that is only ever bound to tuple displays of one arity and only ever read by `x1, .., xk = T`: every
    `T = (e1, .., ek)` becomes `T__0 = e1; ..; T__k-1 = ek` and every destructuring `x1 = T__0; ..`.  (What an inlined
    helper returning a pair leaves behind.)"""
    log = []
    for fn in [n for n in ast.walk(tree) if isinstance(n, FUNC)]:
        stores, loads, bad = {}, {}, set()
        params = {a.arg for a in ast.walk(fn.args) if isinstance(a, ast.arg)}
        for n in _shallow(fn.body):
            if isinstance(n, ast.Assign) and len(n.targets) == 1 and isinstance(n.targets[0], ast.Name) and isinstance(n.value, ast.Tuple) and not any(
                    isinstance(e, ast.Starred) for e in n.value.elts):
                stores.setdefault(n.targets[0].id, []).append(n)
            elif isinstance(n, ast.Assign) and len(n.targets) == 1 and isinstance(n.targets[0], (ast.Tuple, ast.List)) and isinstance(n.value, ast.Name) and not any(
                    isinstance(e, ast.Starred) for e in n.targets[0].elts):
                loads.setdefault(n.value.id, []).append(n)
        for name in list(stores):
            if name in params or name not in loads:
                continue
            k = len(stores[name][0].value.elts)
            if any(len(x.value.elts) != k for x in stores[name]) or any(len(x.targets[0].elts) != k for x in loads[name]):
                continue
            accounted = {id(x.targets[0]) for x in stores[name]} | {id(x.value) for x in loads[name]}
            if any(isinstance(n, ast.Name) and n.id == name and id(n) not in accounted for n in ast.walk(fn)):
                continue
            if any(isinstance(n, ast.Name) and n.id == name for x in stores[name] for n in ast.walk(x.value)):
                continue
            repl = {}
            for x in stores[name]:
                repl[id(x)] = [ast.copy_location(ast.Assign(targets=[ast.Name(id="%s__%d" % (name, i), ctx=ast.Store())], value=e, lineno=x.lineno), x)
                               for i, e in enumerate(x.value.elts)]
            for x in loads[name]:
                repl[id(x)] = [ast.copy_location(ast.Assign(targets=[t], value=ast.Name(id="%s__%d" % (name, i), ctx=ast.Load()), lineno=x.lineno), x)
                               for i, t in enumerate(x.targets[0].elts)]

            def block(stmts):
                out = []
                for st in stmts:
                    for field in ("body", "orelse", "finalbody"):
                        sub = getattr(st, field, None)
                        if isinstance(sub, list) and sub and isinstance(sub[0], ast.stmt) and not isinstance(st, FUNC + (ast.ClassDef,)):
                            setattr(st, field, block(sub))
                    for h in getattr(st, "handlers", []) or []:
                        h.body = block(h.body)
                    out.extend(repl.get(id(st), [st]))
                return out
            fn.body = block(fn.body)
            log.append("tuple temporary %s of %s split into %d names" % (name, fn.name, k))
    if log:
        ast.fix_missing_locations(tree)
    return log


# ------------------------------------------------------------------ parallel assignment
def split_tuple_assignments(tree):
    """`a, b = E1, E2`  ->  `a = E1; b = E2` when no target is read by any right-hand side (so the order of the stores
    cannot matter): plain names on the left with anything on the right, or attribute targets with side-effect-free
    right-hand sides that do not mention them.  Rules then see one definition per statement."""
    log = []

    def split(st):
        if not (isinstance(st, ast.Assign) and len(st.targets) == 1 and isinstance(st.targets[0], (ast.Tuple, ast.List)) and isinstance(
                st.value, (ast.Tuple, ast.List)) and len(st.targets[0].elts) == len(st.value.elts) and len(st.value.elts) >= 2):
            return None
        tg, vals = st.targets[0].elts, st.value.elts
        if any(isinstance(x, ast.Starred) for x in list(tg) + list(vals)):
            return None
        names = set()
        chains = set()
        for t in tg:
            if isinstance(t, ast.Name):
                names.add(t.id)
            elif isinstance(t, ast.Attribute) and _pure_arg(t.value):
                chains.add(ast.unparse(t))
            else:
                return None
        if len(names) + len(chains) != len(tg):
            return None
        for v in vals:
            if {x.id for x in ast.walk(v) if isinstance(x, ast.Name)} & names:
                return None
            if chains and (not _pure_arg(v) or any(ast.unparse(x) in chains for x in ast.walk(v) if isinstance(x, ast.Attribute))):
                return None
        out = []
        for t, v in zip(tg, vals):
            out.append(ast.copy_location(ast.Assign(targets=[t], value=v, lineno=st.lineno), st))
        log.append("parallel assignment at line %d split into %d statements" % (getattr(st, "lineno", 0), len(out)))
        return out

    def block(stmts):
        res = []
        for st in stmts:
            for field in ("body", "orelse", "finalbody"):
                sub = getattr(st, field, None)
                if isinstance(sub, list) and sub and isinstance(sub[0], ast.stmt):
                    setattr(st, field, block(sub))
            for h in getattr(st, "handlers", []) or []:
                h.body = block(h.body)
            r_ = split(st)
            res.extend(r_ if r_ else [st])
        return res

    tree.body = block(tree.body)
    if log:
        ast.fix_missing_locations(tree)
    return log


# ------------------------------------------------------------------ pass-through wrappers
_REG = ("addCallback", "addErrback", "addBoth", "addCallbacks")


def _chain_root(e):
    regs = []
    while isinstance(e, ast.Call) and isinstance(e.func, ast.Attribute) and e.func.attr in _REG:
        regs.append(e)
        e = e.func.value
    return e, regs


def _is_identity(fnode, skip_self):
    """Every path of the callable returns its first (result) parameter unchanged and it never raises or yields."""
    if isinstance(fnode, ast.Lambda):
        ps = [a.arg for a in fnode.args.args]
        return bool(ps) and isinstance(fnode.body, ast.Name) and fnode.body.id == ps[0]
    ps = [a.arg for a in fnode.args.args]
    if skip_self:
        ps = ps[1:]
    if not ps or fnode.decorator_list:
        return False
    p = ps[0]
    rets = 0
    for n in _shallow(fnode.body):
        if isinstance(n, (ast.Raise, ast.Yield, ast.YieldFrom, ast.Await)):
            return False
        if isinstance(n, ast.Return):
            if not (isinstance(n.value, ast.Name) and n.value.id == p):
                return False
            rets += 1
        if isinstance(n, (ast.Assign, ast.AugAssign, ast.AnnAssign)):
            tg = n.targets if isinstance(n, ast.Assign) else [n.target]
            if any(isinstance(x, ast.Name) and x.id == p for t in tg for x in ast.walk(t)):
                return False
    return rets >= 1 and isinstance(fnode.body[-1], ast.Return)


def _passthrough_param(fn, cls):
    """`fn` hands back the Deferred it was given (parameter name returned) after book-keeping that cannot change its
    outcome: every return is a registration chain rooted at the same parameter, every callback registered on that
    parameter returns its argument on all paths, the parameter is never rebound, fired or cancelled."""
    got = _params(fn)
    kind = _decorator_kind(fn)
    if got is None or kind is None:
        return None
    ps = got[0]
    if cls is not None and kind == "plain":
        ps = ps[1:]
    if not ps:
        return None
    nested = {n.name: n for n in fn.body if isinstance(n, FUNC)}
    methods = {n.name: n for n in cls.body if isinstance(n, FUNC)} if cls is not None else {}

    def identity(expr):
        if isinstance(expr, ast.Lambda):
            return _is_identity(expr, False)
        if isinstance(expr, ast.Name) and expr.id in nested:
            return _is_identity(nested[expr.id], False)
        if isinstance(expr, ast.Attribute) and isinstance(expr.value, ast.Name) and expr.value.id == "self" and expr.attr in methods:
            return _is_identity(methods[expr.attr], True)
        return False

    param = None
    n_ret = 0
    for n in _shallow([s for s in fn.body if not isinstance(s, FUNC)]):
        if isinstance(n, (ast.Yield, ast.YieldFrom, ast.Await)):
            return None
        if isinstance(n, ast.Return):
            if n.value is None:
                return None
            root, _regs = _chain_root(n.value)
            if not (isinstance(root, ast.Name) and root.id in ps) or (param is not None and root.id != param):
                return None
            param = root.id
            n_ret += 1
    if param is None or not isinstance(fn.body[-1], ast.Return):
        return None
    for n in _shallow([s for s in fn.body if not isinstance(s, FUNC)]):
        if isinstance(n, (ast.Assign, ast.AugAssign, ast.AnnAssign, ast.For, ast.With)):
            tgs = n.targets if isinstance(n, ast.Assign) else [getattr(n, "target", None)] if not isinstance(n, ast.With) else [
                i.optional_vars for i in n.items]
            if any(isinstance(x, ast.Name) and x.id == param for t in tgs if t is not None for x in ast.walk(t)):
                return None
        if isinstance(n, ast.Call) and isinstance(n.func, ast.Attribute) and isinstance(n.func.value, ast.Name) and n.func.value.id == param:
            if n.func.attr in _REG:
                cbs = list(n.args[:2] if n.func.attr == "addCallbacks" else n.args[:1]) + [
                    k.value for k in n.keywords if k.arg in ("callback", "errback")]
                if not cbs or not all(identity(c) for c in cbs):
                    return None
            elif n.func.attr in ("callback", "errback", "cancel", "addTimeout", "chainDeferred", "pause", "unpause"):
                return None
    # registrations further down a returned chain (d.addBoth(f).addErrback(g)) have a Call receiver: check them too
    for n in _shallow([s for s in fn.body if not isinstance(s, FUNC)]):
        if isinstance(n, ast.Return):
            _root, regs = _chain_root(n.value)
            for c in regs:
                cbs = list(c.args[:2] if c.func.attr == "addCallbacks" else c.args[:1]) + [
                    k.value for k in c.keywords if k.arg in ("callback", "errback")]
                if not cbs or not all(identity(x) for x in cbs):
                    return None
    return param


def strip_passthrough_wrappers(tree, modname):
    """`self.w(<deferred>)` -> `<deferred>` at every call site of a method (or module function) `w` that returns the
    Deferred it was given after book-keeping that cannot change its outcome (see _passthrough_param).  The wrapper
    itself stays in the unit; `tree._wrapped` maps id(<deferred> node) -> qualified wrapper name for the rules that
    care about the book-keeping (e.g. which pending operations close() can reach)."""
    log = []
    wrapped = {}
    cands = {}
    for n in tree.body:
        if isinstance(n, FUNC):
            p = _passthrough_param(n, None)
            if p is not None:
                cands[(None, n.name)] = (n, p)
        elif isinstance(n, ast.ClassDef):
            for m in n.body:
                if isinstance(m, FUNC):
                    p = _passthrough_param(m, n)
                    if p is not None:
                        cands[(n.name, m.name)] = (m, p)
    tree._wrapped = wrapped
    if not cands:
        return log

    class T(ast.NodeTransformer):
        def __init__(self):
            self.cls = None

        def visit_ClassDef(self, node):
            prev, self.cls = self.cls, node.name
            self.generic_visit(node)
            self.cls = prev
            return node

        def visit_Call(self, node):
            self.generic_visit(node)
            key = None
            if isinstance(node.func, ast.Attribute) and isinstance(node.func.value, ast.Name) and node.func.value.id == "self" and (
                    self.cls, node.func.attr) in cands:
                key = (self.cls, node.func.attr)
                skip = 1 if _decorator_kind(cands[key][0]) == "plain" else 0
            elif isinstance(node.func, ast.Name) and (None, node.func.id) in cands:
                key = (None, node.func.id)
                skip = 0
            if key is None or any(isinstance(a, ast.Starred) for a in node.args) or any(k.arg is None for k in node.keywords):
                return node
            fn, p = cands[key]
            names = [a.arg for a in fn.args.args][skip:]
            idx = names.index(p) if p in names else None
            arg = None
            if idx is not None and idx < len(node.args):
                arg = node.args[idx]
            else:
                for k in node.keywords:
                    if k.arg == p:
                        arg = k.value
            if arg is None:
                return node
            wrapped[id(arg)] = "%s%s" % ((key[0] + ".") if key[0] else "", key[1])
            log.append("pass-through wrapper %s%s stripped at line %d" % ((key[0] + ".") if key[0] else "", key[1], getattr(node, "lineno", 0)))
            return arg

    T().visit(tree)
    return log


# ------------------------------------------------------------------ flag threading
def _leaf_arms(node):
    """The leaf statement lists of an if-tree every path of which ends in a leaf: an if/else whose blocks end either in
    a further such if/else (after any statements) or in a plain statement; None without a final else."""
    if not isinstance(node, ast.If) or not node.orelse:
        return None
    out = []
    for block in (node.body, node.orelse):
        last = block[-1] if block else None
        if isinstance(last, ast.If) and last.orelse:
            sub = _leaf_arms(last)
            if sub is None:
                return None
            out.extend(sub)
        else:
            out.append(block)
    return out


def _pure_test_value(e):
    """an expression that can be moved from `flag = E` into `if E:` right there: comparisons / boolean combinations of
    names, attributes, constants and calls of len/isinstance (no other calls)"""
    for n in ast.walk(e):
        if isinstance(n, ast.Call) and not (isinstance(n.func, ast.Name) and n.func.id in ("len", "isinstance", "bool")):
            return False
        if isinstance(n, (ast.Yield, ast.YieldFrom, ast.Await, ast.Lambda, ast.NamedExpr)):
            return False
    if isinstance(e, ast.Call) and isinstance(e.func, ast.Name) and e.func.id == "bool" and len(e.args) == 1:
        e = e.args[0]
    return isinstance(e, (ast.Compare, ast.BoolOp, ast.UnaryOp, ast.Name, ast.Attribute))


def _decide(test, flag, value, sentinels):
    """Outcome of `test` (which mentions only the local `flag`) when flag was just assigned `value`: True/False, or
    None when it cannot be told from the syntax."""
    if isinstance(test, ast.UnaryOp) and isinstance(test.op, ast.Not):
        v = _decide(test.operand, flag, value, sentinels)
        return None if v is None else (not v)
    if isinstance(test, ast.Name) and test.id == flag:
        if isinstance(value, ast.Constant):
            return bool(value.value)
        return None
    if isinstance(test, ast.Compare) and len(test.ops) == 1 and isinstance(test.left, ast.Name) and test.left.id == flag:
        op, x = test.ops[0], test.comparators[0]
        eq = None
        if isinstance(x, ast.Name) and x.id in sentinels:
            # a unique module-level object(): nothing but the name itself denotes it
            eq = isinstance(value, ast.Name) and value.id == x.id
        elif isinstance(x, ast.Constant) and isinstance(value, ast.Constant):
            eq = (value.value is x.value) if x.value is None or isinstance(x.value, bool) else (
                type(value.value) is type(x.value) and value.value == x.value)
        elif isinstance(x, ast.Constant) and x.value is None and isinstance(value, ast.Name) and value.id in sentinels:
            eq = False
        if eq is None:
            return None
        if isinstance(op, (ast.Is, ast.Eq)):
            return eq
        if isinstance(op, (ast.IsNot, ast.NotEq)):
            return not eq
    return None


def _select_value(arms, b, fn, log, a):
    """`if A: f = g   elif B: f = h   else: raise ...` immediately followed by one simple statement using `f`, which is
    used nowhere else: the statement moves into the arms with the selected name in place (`return [g(x)]`)."""
    assigning = []
    var = None
    for arm in arms:
        last = arm[-1] if arm else None
        if isinstance(last, ast.Assign) and len(last.targets) == 1 and isinstance(last.targets[0], ast.Name) and isinstance(
                last.value, (ast.Name, ast.Constant)):
            if var is not None and last.targets[0].id != var:
                return False
            var = last.targets[0].id
            assigning.append(arm)
        elif not _always_leaves(arm):
            return False
    if var is None or len(assigning) < 2:
        return False
    if any(isinstance(n, ast.NamedExpr) for n in ast.walk(b)):
        return False
    in_b = sum(1 for x in ast.walk(b) if isinstance(x, ast.Name) and x.id == var)
    uses = sum(1 for x in ast.walk(fn) if isinstance(x, ast.Name) and x.id == var)
    if in_b == 0 or uses != len(assigning) + in_b or any(isinstance(x, ast.Name) and x.id == var and not isinstance(x.ctx, ast.Load) for x in ast.walk(b)):
        return False
    if any(isinstance(x, ast.arg) and x.arg == var for x in ast.walk(fn)):
        return False
    # only a selected *callable*: a selected datum is followed by the rules' value analysis as it stands
    called = sum(1 for c in ast.walk(b) if isinstance(c, ast.Call) and isinstance(c.func, ast.Name) and c.func.id == var)
    if called != in_b:
        return False
    for arm in assigning:
        value = arm.pop().value

        class S(ast.NodeTransformer):
            def visit_Name(self, n):
                return ast.copy_location(copy.deepcopy(value), n) if n.id == var else n
        arm.append(S().visit(copy.deepcopy(b)))
    log.append("selected callable %s moved with its call into %d arms at line %d" % (var, len(assigning), getattr(a, "lineno", 0)))
    return True


def thread_flags(tree):
    """`if A: ...; flag = True   elif B: ...; flag = True   else: flag = False` immediately followed by
    `if [not] flag: BODY [else: OTHER]`, the flag being used nowhere else: BODY / OTHER is moved into the arms according
    to the constant each arm assigns and the flag disappears.  The arms then carry their own conditions as guard facts
    (a boolean result of an inlined predicate helper no longer hides which case led to which continuation)."""
    log = []
    # module-level sentinels: NAME = object(), bound once
    sentinels = set()
    counts = {}
    for st in tree.body:
        if isinstance(st, ast.Assign):
            for t in st.targets:
                if isinstance(t, ast.Name):
                    counts[t.id] = counts.get(t.id, 0) + 1
                    if isinstance(st.value, ast.Call) and isinstance(st.value.func, ast.Name) and st.value.func.id == "object" and not st.value.args:
                        sentinels.add(t.id)
    sentinels = {n_ for n_ in sentinels if counts.get(n_) == 1}
    # names bound once at module level to pairwise distinct str / int constants behave like sentinels under `is` / `==`
    consts_ = {}
    for st in tree.body:
        if isinstance(st, ast.Assign) and len(st.targets) == 1 and isinstance(st.targets[0], ast.Name) and isinstance(st.value, ast.Constant) and isinstance(
                st.value.value, (str, int)) and not isinstance(st.value.value, bool) and counts.get(st.targets[0].id) == 1:
            consts_[st.targets[0].id] = st.value.value
    by_val = {}
    for k_, v_ in consts_.items():
        by_val.setdefault((type(v_), v_), []).append(k_)
    sentinels |= {ks[0] for ks in by_val.values() if len(ks) == 1 and ks[0].startswith("_")}

    def block(stmts, fn):
        i = 0
        while i + 1 < len(stmts):
            a, b = stmts[i], stmts[i + 1]
            arms = _leaf_arms(a)
            flag = None
            if arms:
                # leaves that always leave (return / raise) never reach the test
                arms = [arm for arm in arms if not _always_leaves(arm)] or None
            if arms and not isinstance(b, ast.If):
                # plain copies between the if-tree and a test of what they copy (`committed = T__1`, then `if committed ..`):
                # they move into the leaves, the test then follows the tree directly
                j = i + 1
                while j < len(stmts) and isinstance(stmts[j], ast.Assign) and len(stmts[j].targets) == 1 and isinstance(
                        stmts[j].value, (ast.Name, ast.Constant)) and _simple_target(stmts[j].targets[0]):
                    j += 1
                lead = stmts[i + 1:j]
                assigned_in_arms = {l.targets[0].id for arm in arms for l in arm if isinstance(l, ast.Assign) and len(l.targets) == 1 and isinstance(l.targets[0], ast.Name)}
                if lead and j < len(stmts) and isinstance(stmts[j], ast.If) and any(isinstance(x.value, ast.Name) and x.value.id in assigned_in_arms for x in lead) and \
                        {y.id for y in ast.walk(stmts[j].test) if isinstance(y, ast.Name)} & {x.targets[0].id for x in lead if isinstance(x.targets[0], ast.Name)}:
                    # the copy that feeds the test goes last in each leaf
                    tested = {y.id for y in ast.walk(stmts[j].test) if isinstance(y, ast.Name)}
                    lead = sorted(lead, key=lambda x: isinstance(x.targets[0], ast.Name) and x.targets[0].id in tested)
                    all_arms = _leaf_arms(a)
                    for arm in all_arms:
                        if not _always_leaves(arm):
                            arm.extend(copy.deepcopy(lead))
                    del stmts[i + 1:j]
                    log.append("%d copies moved into the arms at line %d" % (len(lead), getattr(a, "lineno", 0)))
                    b = stmts[i + 1]
            if arms and isinstance(b, ast.If):
                names = {x.id for x in ast.walk(b.test) if isinstance(x, ast.Name)}
                lasts = [arm[-1] if arm else None for arm in arms]
                if all(isinstance(l, ast.Assign) and len(l.targets) == 1 and isinstance(l.targets[0], ast.Name) for l in lasts):
                    tg = {l.targets[0].id for l in lasts}
                    if len(tg) == 1 and tg <= names:
                        flag = tg.pop()
            if arms and not flag and isinstance(b, (ast.Return, ast.Expr, ast.Assign, ast.AugAssign)) and _select_value(arms, b, fn, log, a):
                del stmts[i + 1]
                continue
            if flag:
                def _leaf_value(arm):
                    # the value the flag has at the end of the leaf: through a copy of a name the leaf itself bound to a constant
                    v_ = arm[-1].value
                    if isinstance(v_, ast.Name):
                        for st_ in reversed(arm[:-1]):
                            if isinstance(st_, ast.Assign) and len(st_.targets) == 1 and isinstance(st_.targets[0], ast.Name) and st_.targets[0].id == v_.id:
                                return st_.value
                            if any(isinstance(y, ast.Name) and y.id == v_.id and isinstance(y.ctx, ast.Store) for y in ast.walk(st_)):
                                break
                    return v_
                vals = [_decide(b.test, flag, _leaf_value(arm), sentinels) for arm in arms]
                uses = sum(1 for x in ast.walk(fn) if isinstance(x, ast.Name) and x.id == flag)
                n_test = sum(1 for x in ast.walk(b.test) if isinstance(x, ast.Name) and x.id == flag)
                drop = uses == len(arms) + n_test
                # a leaf that assigns a non-constant expression: only for a plain `flag` / `not flag` test of a flag used
                # nowhere else - the leaf then ends in `if <expression>: BODY else: OTHER` (evaluated where it was assigned)
                plain = isinstance(b.test, ast.Name) or (isinstance(b.test, ast.UnaryOp) and isinstance(b.test.op, ast.Not) and isinstance(
                    b.test.operand, ast.Name))
                neg = not isinstance(b.test, ast.Name)
                general = plain and drop and any(v is not None for v in vals) and all(
                    v is not None or _pure_test_value(arm[-1].value) for arm, v in zip(arms, vals))
                # `if <test on flag>: BODY` without else where BODY always leaves, the flag being tested again further on:
                # BODY moves into the leaves that decide the test true (which need the flag no more), the others go on
                staged = (not drop) and all(v is not None for v in vals) and not b.orelse and _always_leaves(b.body) and not any(
                    isinstance(x, ast.Name) and x.id == flag for st_ in b.body for x in ast.walk(st_))
                if staged:
                    for arm, v in zip(arms, vals):
                        if v:
                            arm.pop()
                            arm.extend(copy.deepcopy(b.body))
                    del stmts[i + 1]
                    log.append("flag %s: test at line %d threaded into %d of %d arms" % (flag, getattr(b, "lineno", 0), sum(1 for v in vals if v), len(arms)))
                    continue
                # some leaves decide the test, the others keep it: a copy of the whole `if` goes into those
                mixed = (not general) and any(v is not None for v in vals) and not all(v is not None for v in vals)
                if mixed:
                    for arm, v in zip(arms, vals):
                        if v is not None:
                            arm.extend(copy.deepcopy(b.body if v else b.orelse))
                        else:
                            arm.append(copy.deepcopy(b))
                    del stmts[i + 1]
                    log.append("flag %s: test at line %d decided in %d of %d arms, kept in the others" % (flag, getattr(b, "lineno", 0), sum(1 for v in vals if v is not None), len(arms)))
                    continue
                if all(v is not None for v in vals) or general:
                    for arm, v in zip(arms, vals):
                        last = arm[-1]
                        if drop:
                            arm.pop()
                        if v is not None:
                            arm.extend(copy.deepcopy(b.body if v else b.orelse))
                        else:
                            t_body, t_else = (b.orelse, b.body) if neg else (b.body, b.orelse)
                            arm.append(ast.fix_missing_locations(ast.copy_location(ast.If(
                                test=last.value, body=copy.deepcopy(t_body) or [ast.Pass()], orelse=copy.deepcopy(t_else)), last)))
                        if not arm:
                            arm.append(ast.Pass())
                    del stmts[i + 1]
                    log.append("flag %s threaded into %d arms at line %d" % (flag, len(arms), getattr(a, "lineno", 0)))
                    continue
            i += 1
        for st in stmts:
            for field in ("body", "orelse", "finalbody"):
                sub = getattr(st, field, None)
                if isinstance(sub, list) and sub and not isinstance(st, FUNC + (ast.ClassDef,)):
                    block(sub, fn)
            for h in getattr(st, "handlers", []) or []:
                block(h.body, fn)

    for n in ast.walk(tree):
        if isinstance(n, FUNC):
            block(n.body, n)
    if log:
        ast.fix_missing_locations(tree)
    return log


# ------------------------------------------------------------------ precompiled struct objects
def desugar_struct_objects(tree):
    """`S = struct.Struct(FMT)` bound once at module or class level: `S.pack(a)` -> `struct.pack(FMT, a)`,
    `S.unpack(b)` / `S.unpack_from(b, o)` / `S.pack_into(...)` / `S.iter_unpack(b)` likewise, `S.size` -> the number
    `struct.calcsize(FMT)`, `S.format` -> FMT; through `cls.S` / `self.S` / `Class.S` for class-level ones.  The rules
    then see the one spelling the struct module offers for each operation."""
    import struct as _struct

    log = []

    def struct_fmt(v):
        if isinstance(v, ast.Call) and ast.unparse(v.func) in ("struct.Struct", "Struct") and len(v.args) == 1 and not v.keywords and isinstance(
                v.args[0], ast.Constant) and isinstance(v.args[0].value, str):
            return v.args[0].value
        return None

    mod_consts, counts = {}, {}
    for st in tree.body:
        if isinstance(st, ast.Assign):
            for t in st.targets:
                if isinstance(t, ast.Name):
                    counts[t.id] = counts.get(t.id, 0) + 1
                    f = struct_fmt(st.value)
                    if f is not None:
                        mod_consts[t.id] = f
    mod_consts = {k: v for k, v in mod_consts.items() if counts.get(k) == 1}
    cls_consts = {}
    for c in tree.body:
        if isinstance(c, ast.ClassDef):
            cc = {}
            for st in c.body:
                if isinstance(st, ast.Assign) and len(st.targets) == 1 and isinstance(st.targets[0], ast.Name):
                    f = struct_fmt(st.value)
                    if f is not None:
                        cc[st.targets[0].id] = f
            if cc:
                cls_consts[c.name] = cc
    if not mod_consts and not cls_consts:
        return log
    # a name that is re-bound anywhere (a parameter, a local) is not the constant
    shadowed = set()
    for n in ast.walk(tree):
        if isinstance(n, ast.arg) and n.arg in mod_consts:
            shadowed.add(n.arg)
        if isinstance(n, ast.Name) and isinstance(n.ctx, ast.Store) and n.id in mod_consts and counts.get(n.id) == 1:
            pass
    stores = {}
    for n in ast.walk(tree):
        if isinstance(n, ast.Name) and isinstance(n.ctx, ast.Store) and n.id in mod_consts:
            stores[n.id] = stores.get(n.id, 0) + 1
    mod_consts = {k: v for k, v in mod_consts.items() if stores.get(k) == 1 and k not in shadowed}

    class T(ast.NodeTransformer):
        def __init__(self):
            self.cls = None

        def visit_ClassDef(self, node):
            prev, self.cls = self.cls, node.name
            self.generic_visit(node)
            self.cls = prev
            return node

        def fmt_of(self, e):
            if isinstance(e, ast.Name) and e.id in mod_consts:
                return mod_consts[e.id]
            if isinstance(e, ast.Attribute) and isinstance(e.value, ast.Name):
                owner = self.cls if e.value.id in ("self", "cls") else e.value.id
                return cls_consts.get(owner, {}).get(e.attr)
            return None

        def visit_Call(self, node):
            self.generic_visit(node)
            if isinstance(node.func, ast.Attribute) and node.func.attr in ("pack", "unpack", "unpack_from", "pack_into", "iter_unpack"):
                f = self.fmt_of(node.func.value)
                if f is not None:
                    log.append("struct object %s.%s desugared at line %d" % (ast.unparse(node.func.value), node.func.attr, getattr(node, "lineno", 0)))
                    new = ast.Call(func=ast.Attribute(value=ast.Name(id="struct", ctx=ast.Load()), attr=node.func.attr, ctx=ast.Load()),
                                   args=[ast.Constant(value=f)] + list(node.args), keywords=list(node.keywords))
                    return ast.copy_location(new, node)
            return node

        def visit_Attribute(self, node):
            self.generic_visit(node)
            if node.attr in ("size", "format") and isinstance(node.ctx, ast.Load):
                f = self.fmt_of(node.value)
                if f is not None:
                    try:
                        v = _struct.calcsize(f) if node.attr == "size" else f
                    except _struct.error:
                        return node
                    return ast.copy_location(ast.Constant(value=v), node)
            return node

    T().visit(tree)
    if log:
        ast.fix_missing_locations(tree)
    return log

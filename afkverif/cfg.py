"""Statement-level control-flow graphs, must-hold guard facts, reachability.

One node per statement *occurrence* (``finally`` bodies are cloned per
continuation so that no infeasible return->fallthrough path is introduced).
Edges carry labels: ('cond', test_expr, polarity), ('iter', bool), ('exc',),
or None.  Statements inside a ``try`` body (and every suspension point of an
inlineCallbacks generator) have exceptional edges to the enclosing handlers.
"""
import ast

from .model import attr_chain, local_writes_of_stmt, unparse, walk_shallow

_FACT_NAMES_CACHE = {}


class Node(object):
    __slots__ = ("id", "kind", "stmt", "suspends")

    def __init__(self, id, kind, stmt=None):
        self.id = id
        self.kind = kind  # entry exit raise stmt test for with except def
        self.stmt = stmt
        self.suspends = False

    @property
    def lineno(self):
        return getattr(self.stmt, "lineno", 0)

    def text(self, limit=100):
        if self.stmt is None:
            return "<%s>" % self.kind
        if self.kind == "test":
            t = ("if " if isinstance(self.stmt, ast.If) else "while ") + unparse(self.stmt.test)
        elif self.kind == "for":
            t = "for %s in %s" % (unparse(self.stmt.target), unparse(self.stmt.iter))
        elif self.kind == "with":
            t = "with " + ", ".join(unparse(i) for i in self.stmt.items)
        elif self.kind == "except":
            t = "except " + (unparse(self.stmt.type) if self.stmt.type else "")
        elif self.kind == "def":
            t = "def %s" % self.stmt.name
        else:
            t = unparse(self.stmt)
        t = " ".join(t.split())
        return t if len(t) <= limit else t[: limit - 3] + "..."

    def exprs(self):
        """AST roots whose evaluation belongs to this node."""
        s = self.stmt
        if s is None:
            return []
        if self.kind == "test":
            return [s.test]
        if self.kind == "for":
            return [s.iter, s.target]
        if self.kind == "with":
            return [i.context_expr for i in s.items] + [i.optional_vars for i in s.items if i.optional_vars]
        if self.kind == "except":
            return [s.type] if s.type else []
        if self.kind == "def":
            return []
        return [s]

    def walk(self):
        for e in self.exprs():
            for n in walk_shallow(e):
                yield n

    def calls(self):
        return [n for n in self.walk() if isinstance(n, ast.Call)]

    def __repr__(self):
        return "<Node %d %s L%d %s>" % (self.id, self.kind, self.lineno, self.text(50))


class _Ctx(object):
    __slots__ = ("ret", "exc", "brk", "cont", "in_try")

    def __init__(self, ret, exc, brk=None, cont=None, in_try=False):
        self.ret, self.exc, self.brk, self.cont, self.in_try = ret, exc, brk, cont, in_try

    def replace(self, **kw):
        c = _Ctx(self.ret, self.exc, self.brk, self.cont, self.in_try)
        for k, v in kw.items():
            setattr(c, k, v)
        return c


def _catch_all(handler):
    if handler.type is None:
        return True
    t = unparse(handler.type)
    return t in ("Exception", "BaseException")


class CFG(object):
    def __init__(self, func):
        self.func = func
        self.nodes = []
        self.succ = {}
        self.pred = {}
        self.suspending = func.is_inline_callbacks
        self.entry = self._new("entry")
        self.exit = self._new("exit")
        self.raise_exit = self._new("raise")
        ctx = _Ctx(ret=self.exit.id, exc=[self.raise_exit.id])
        first = self._block(func.body, self.exit.id, ctx)
        self._edge(self.entry.id, first, None)
        self._by_stmt = {}
        for n in self.nodes:
            if n.stmt is not None:
                self._by_stmt.setdefault(id(n.stmt), []).append(n)

    # ----------------------------------------------------------- construction
    def _new(self, kind, stmt=None):
        n = Node(len(self.nodes), kind, stmt)
        self.nodes.append(n)
        self.succ[n.id] = []
        self.pred[n.id] = []
        return n

    def _edge(self, a, b, label):
        if (b, label) not in self.succ[a]:
            self.succ[a].append((b, label))
            self.pred[b].append((a, label))

    def _block(self, stmts, succ, ctx):
        nxt = succ
        for st in reversed(stmts):
            nxt = self._stmt(st, nxt, ctx)
        return nxt

    def _exc_edges(self, n, ctx, force=False):
        if ctx.in_try or force:
            for t in ctx.exc:
                self._edge(n.id, t, ("exc",))

    def _stmt(self, st, succ, ctx):
        if isinstance(st, ast.If):
            n = self._new("test", st)
            b = self._block(st.body, succ, ctx)
            e = self._block(st.orelse, succ, ctx)
            self._edge(n.id, b, ("cond", st.test, True))
            self._edge(n.id, e, ("cond", st.test, False))
            self._mark(n, ctx)
            return n.id
        if isinstance(st, ast.While):
            n = self._new("test", st)
            after = self._block(st.orelse, succ, ctx)
            body = self._block(st.body, n.id, ctx.replace(brk=succ, cont=n.id))
            self._edge(n.id, body, ("cond", st.test, True))
            const_true = isinstance(st.test, ast.Constant) and bool(st.test.value)
            if not const_true:
                self._edge(n.id, after, ("cond", st.test, False))
            self._mark(n, ctx)
            return n.id
        if isinstance(st, (ast.For, ast.AsyncFor)):
            n = self._new("for", st)
            after = self._block(st.orelse, succ, ctx)
            body = self._block(st.body, n.id, ctx.replace(brk=succ, cont=n.id))
            self._edge(n.id, body, ("iter", True))
            self._edge(n.id, after, ("iter", False))
            self._mark(n, ctx)
            return n.id
        if isinstance(st, (ast.With, ast.AsyncWith)):
            n = self._new("with", st)
            body = self._block(st.body, succ, ctx)
            self._edge(n.id, body, None)
            self._mark(n, ctx)
            return n.id
        if isinstance(st, ast.Try) or st.__class__.__name__ == "TryStar":
            return self._try(st, succ, ctx)
        if isinstance(st, (ast.FunctionDef, ast.AsyncFunctionDef, ast.ClassDef)):
            n = self._new("def", st)
            self._edge(n.id, succ, None)
            return n.id
        n = self._new("stmt", st)
        if isinstance(st, ast.Return):
            self._edge(n.id, ctx.ret, None)
            self._mark(n, ctx)
        elif isinstance(st, ast.Raise):
            for t in ctx.exc:
                self._edge(n.id, t, ("exc",))
        elif isinstance(st, ast.Break):
            self._edge(n.id, ctx.brk if ctx.brk is not None else succ, None)
        elif isinstance(st, ast.Continue):
            self._edge(n.id, ctx.cont if ctx.cont is not None else succ, None)
        else:
            call_rv = _is_return_value_call(st)
            if call_rv:
                # twisted's returnValue() raises: control leaves the generator
                self._edge(n.id, ctx.ret, None)
            else:
                self._edge(n.id, succ, None)
            self._mark(n, ctx)
        return n.id

    def _mark(self, n, ctx):
        has_yield = any(isinstance(x, (ast.Yield, ast.YieldFrom)) for x in n.walk())
        if has_yield and self.suspending:
            n.suspends = True
        if not isinstance(n.stmt, (ast.Pass, ast.Break, ast.Continue)):
            self._exc_edges(n, ctx, force=n.suspends)

    def _try(self, st, succ, ctx):
        # finally is cloned per continuation kind
        if st.finalbody:
            f_norm = self._block(st.finalbody, succ, ctx)
            f_ret = self._block(st.finalbody, ctx.ret, ctx)
            f_exc = [self._block(st.finalbody, t, ctx) for t in ctx.exc]
            f_brk = self._block(st.finalbody, ctx.brk, ctx) if ctx.brk is not None else None
            f_cont = self._block(st.finalbody, ctx.cont, ctx) if ctx.cont is not None else None
            outer = ctx.replace(ret=f_ret, exc=f_exc, brk=f_brk, cont=f_cont)
            after = f_norm
        else:
            outer = ctx
            after = succ
        handler_entries = []
        for h in st.handlers:
            hn = self._new("except", h)
            hb = self._block(h.body, after, outer)
            self._edge(hn.id, hb, None)
            handler_entries.append(hn.id)
        exc_targets = list(handler_entries)
        if not any(_catch_all(h) for h in st.handlers):
            exc_targets += outer.exc
        orelse = self._block(st.orelse, after, outer)
        body = self._block(st.body, orelse, outer.replace(exc=exc_targets, in_try=True))
        return body

    # ---------------------------------------------------------------- queries
    def node_of(self, stmt):
        """First CFG node created for AST statement `stmt`."""
        ns = self._by_stmt.get(id(stmt))
        return ns[0] if ns else None

    def nodes_of(self, stmt):
        return self._by_stmt.get(id(stmt), [])

    def find(self, pred):
        return [n for n in self.nodes if n.stmt is not None and pred(n)]

    def find_calls(self, call_pred):
        """[(node, call)] for calls evaluated by a node satisfying call_pred."""
        out = []
        for n in self.nodes:
            for c in n.calls():
                if call_pred(c):
                    out.append((n, c))
        return out

    def containing(self, astnode):
        """CFG nodes whose own expressions contain astnode."""
        out = []
        for n in self.nodes:
            for x in n.walk():
                if x is astnode:
                    out.append(n)
                    break
        return out

    def reach(self, srcs, avoid=(), follow_exc=True, include_src=False):
        avoid = set(avoid)
        seen = set()
        stack = []
        for s in srcs:
            for t, lab in self.succ[s]:
                if lab == ("exc",) and not follow_exc:
                    continue
                stack.append(t)
            if include_src:
                seen.add(s)
        while stack:
            x = stack.pop()
            if x in seen or x in avoid:
                continue
            seen.add(x)
            for t, lab in self.succ[x]:
                if lab == ("exc",) and not follow_exc:
                    continue
                stack.append(t)
        return seen

    def reach_from_entry(self, avoid=(), follow_exc=True):
        if self.entry.id in set(avoid):
            return set()
        return self.reach([self.entry.id], avoid, follow_exc) | {self.entry.id}

    def dominates(self, a_ids, b, follow_exc=True):
        """True iff every entry->b path passes a node in a_ids."""
        a_ids = set(a_ids)
        if b in a_ids:
            return True
        return b not in self.reach_from_entry(avoid=a_ids, follow_exc=follow_exc)

    def must_pass(self, src, dst, through, follow_exc=False):
        """True iff every path src->dst passes a node in `through`."""
        return dst not in self.reach([src], avoid=set(through), follow_exc=follow_exc)

    def normal_exits_from(self, src, avoid=(), follow_exc=False):
        return self.exit.id in self.reach([src], avoid=avoid, follow_exc=follow_exc)

    def control_deps(self, nid):
        """Branch nodes (test/for) whose outcome decides whether node `nid`
        executes, w.r.t. normal completion: [(branch node, label)]."""
        out = []
        back = self._reaching_to(nid)
        for t in self.nodes:
            if t.kind not in ("test", "for") or t.id == nid or t.id not in back:
                continue
            if not self.normal_exits_from(t.id, avoid=[nid]):
                continue  # nid post-dominates t
            for a, lab in self.succ[t.id]:
                if lab == ("exc",):
                    continue
                if a == nid or (a in back and not self.normal_exits_from(a, avoid=[nid]) and a != self.exit.id):
                    out.append((t, lab))
        return out

    def control_deps_transitive(self, nid, within=None):
        """Transitive closure of control_deps (tests controlling the controlling tests...), optionally restricted
        to branch nodes in the node-id set `within`."""
        seen = {}
        work = [nid]
        while work:
            x = work.pop()
            for t, lab in self.control_deps(x):
                if within is not None and t.id not in within:
                    continue
                if t.id not in seen:
                    seen[t.id] = (t, lab)
                    work.append(t.id)
        return list(seen.values())

    def _reaching_to(self, nid):
        seen = set()
        stack = [nid]
        while stack:
            x = stack.pop()
            for p, lab in self.pred[x]:
                if p not in seen:
                    seen.add(p)
                    stack.append(p)
        return seen

    def paths(self, src, dst, max_paths=20000, unroll=1, follow_exc=True):
        """All paths src..dst visiting each node at most unroll+1 times."""
        out = []
        count = {}
        path = []

        def rec(x):
            if len(out) >= max_paths:
                return
            path.append(x)
            if x == dst and len(path) > 1 or (x == dst and src == dst and len(path) > 1):
                out.append(list(path))
                path.pop()
                return
            count[x] = count.get(x, 0) + 1
            for t, lab in self.succ[x]:
                if lab == ("exc",) and not follow_exc:
                    continue
                if count.get(t, 0) <= unroll:
                    rec(t)
            count[x] -= 1
            path.pop()

        import sys

        old = sys.getrecursionlimit()
        sys.setrecursionlimit(max(old, 10000))
        try:
            rec(src)
        finally:
            sys.setrecursionlimit(old)
        return out

    # ------------------------------------------------------------ must facts
    def must_facts(self, prog=None, entry_facts=(), kill_on_suspend=True, suspend_pred=None):
        """Forward must-analysis.  Returns dict node id -> frozenset of
        (atom_text, polarity) that hold on *every* path on entry to the node."""
        TOP = None
        fin = {n.id: TOP for n in self.nodes}
        fin[self.entry.id] = frozenset(entry_facts)
        work = [self.entry.id]
        kills = {n.id: self._kills(n, prog) for n in self.nodes}
        gens = {n.id: _gens(n) for n in self.nodes}
        susp = {n.id: (n.suspends if suspend_pred is None else bool(n.suspends and suspend_pred(n))) for n in self.nodes}
        while work:
            x = work.pop()
            fx = fin[x]
            if fx is TOP:
                continue
            n = self.nodes[x]
            out = _apply_kill(fx, kills[x], susp[x] and kill_on_suspend)
            out = out | gens[x]
            for t, lab in self.succ[x]:
                f = out
                if lab == ("exc",):
                    # the statement may have been interrupted mid-way: its own
                    # gens do not hold, its kills do
                    f = _apply_kill(fx, kills[x], susp[x] and kill_on_suspend)
                elif lab and lab[0] == "cond":
                    f = out | cond_facts(out, lab[1], lab[2])
                new = f if fin[t] is TOP else (fin[t] & f)
                if fin[t] is TOP or new != fin[t]:
                    fin[t] = new
                    work.append(t)
        return {k: (v if v is not TOP else frozenset()) for k, v in fin.items()}, {
            k for k, v in fin.items() if v is TOP
        }

    def replay_paths(self, prog=None, max_paths=4000, kill_on_suspend=True):
        """Independent cross-check of must_facts: enumerate entry->exit/raise paths (loops unrolled once), replay
        the transfer function along each explicit path and verify that every fact the dataflow claims at a node
        holds on that path.  Returns (paths, node visits checked, mismatches, truncated)."""
        facts, _unreach = self.must_facts(prog, kill_on_suspend=kill_on_suspend)
        kills = {n.id: self._kills(n, prog) for n in self.nodes}
        gens = {n.id: _gens(n) for n in self.nodes}
        paths = []
        for dst in (self.exit.id, self.raise_exit.id):
            paths += self.paths(self.entry.id, dst, max_paths=max_paths - len(paths))
            if len(paths) >= max_paths:
                break
        checks = 0
        mismatches = []
        for p in paths:
            state = frozenset()
            for i, x in enumerate(p):
                checks += 1
                missing = facts[x] - state
                if missing and len(mismatches) < 5:
                    mismatches.append((self.func.qname, self.nodes[x].lineno, sorted(missing)[:3]))
                if i + 1 == len(p):
                    break
                n = self.nodes[x]
                nxt = p[i + 1]
                labs = [lab for t, lab in self.succ[x] if t == nxt]
                susp = n.suspends and kill_on_suspend
                base = _apply_kill(state, kills[x], susp)
                # several labels to the same successor: take the weakest (intersection) to stay conservative
                outs = []
                for lab in labs:
                    if lab == ("exc",):
                        outs.append(base)
                    elif lab and lab[0] == "cond":
                        outs.append((base | gens[x]) | cond_facts(base | gens[x], lab[1], lab[2]))
                    else:
                        outs.append(base | gens[x])
                state = frozenset.intersection(*outs) if outs else base
        return len(paths), checks, mismatches, len(paths) >= max_paths

    def _kills(self, n, prog):
        """Set of attr chains written by node n (own effects)."""
        killed = set()
        if n.stmt is None:
            return killed
        if n.kind in ("stmt", "for", "with"):
            killed |= local_writes_of_stmt(n.stmt)
        for x in n.walk():
            if isinstance(x, ast.NamedExpr):
                c = attr_chain(x.target)
                if c:
                    killed.add(c)
            if isinstance(x, ast.Call):
                if isinstance(x.func, ast.Attribute):
                    rc = attr_chain(x.func.value)
                    if rc and x.func.attr in ("callback", "errback", "cancel"):
                        killed.add(rc + ".called")
                    if rc and x.func.attr in (
                        "append", "extend", "pop", "popitem", "remove", "clear", "update", "setdefault", "insert",
                    ):
                        killed.add(rc)
                    if rc and x.func.attr in ("cancel", "stop", "reset", "start"):
                        killed.add(rc + ".active")
                        killed.add(rc + ".running")
                if prog is not None:
                    callee = prog.resolve_call(self.func, x)
                    if callee is not None and callee.cls is not None and self.func.cls is not None:
                        for a in prog.writes(callee):
                            killed.add("self." + a)
        return killed


def _is_return_value_call(st):
    return (
        isinstance(st, ast.Expr)
        and isinstance(st.value, ast.Call)
        and unparse(st.value.func).split(".")[-1] == "returnValue"
    )


def _fact_names(text):
    r = _FACT_NAMES_CACHE.get(text)
    if r is None:
        r = set()
        try:
            tree = ast.parse(text, mode="eval")
            for n in ast.walk(tree):
                if isinstance(n, (ast.Attribute, ast.Name)):
                    c = attr_chain(n)
                    if c:
                        r.add(c)
        except SyntaxError:
            pass
        _FACT_NAMES_CACHE[text] = r
    return r


def _apply_kill(facts, killed, suspend):
    if not killed and not suspend:
        return facts
    out = []
    for f in facts:
        names = _fact_names(f[0])
        dead = False
        for nm in names:
            if suspend and (nm == "self" or nm.startswith("self.")):
                dead = True
                break
            for k in killed:
                if nm == k or nm.startswith(k + ".") or nm.startswith(k + "["):
                    dead = True
                    break
            if dead:
                break
        if not dead:
            out.append(f)
    return frozenset(out)


def _gens(n):
    """Facts established by simple constant assignments."""
    out = set()
    st = n.stmt
    if n.kind == "stmt" and isinstance(st, ast.Assign) and isinstance(st.value, ast.Constant):
        v = st.value.value
        for t in st.targets:
            c = attr_chain(t)
            if not c:
                continue
            if v is None:
                out.add((c + " is None", True))
                out.add((c, False))
            elif v is False or v == 0 and not isinstance(v, bool) or v == "":
                out.add((c, False))
            elif v is True:
                out.add((c, True))
    # definition facts: after `x = E` (E pure, not mentioning x) the fact `(x := E)` holds until x or a name of E is
    # written; after `self.a = x` the local x denotes self.a.  They let a test on a temporary establish the facts of
    # the expression it names (cond_facts) and let rules resolve aliases flow-sensitively (resolve_at).
    if n.kind == "stmt" and isinstance(st, (ast.Assign, ast.AnnAssign)) and getattr(st, "value", None) is not None:
        targets = st.targets if isinstance(st, ast.Assign) else [st.target]
        if len(targets) == 1:
            t = targets[0]
            if isinstance(t, ast.Name) and pure_for_def(st.value) and not isinstance(st.value, ast.Constant):
                if t.id not in {x.id for x in ast.walk(st.value) if isinstance(x, ast.Name)}:
                    out.add(("(%s := %s)" % (t.id, unparse(st.value)), True))
            elif isinstance(t, ast.Attribute) and isinstance(st.value, ast.Name) and attr_chain(t):
                out.add(("(%s := %s)" % (st.value.id, attr_chain(t)), True))
    return frozenset(out)


_DEF_PURE_FUNCS = {"len", "isinstance", "min", "max", "int", "abs", "bool", "type"}


def pure_for_def(e):
    if isinstance(e, (ast.Constant, ast.Name)):
        return True
    if isinstance(e, ast.Attribute):
        return pure_for_def(e.value)
    if isinstance(e, ast.UnaryOp):
        return pure_for_def(e.operand)
    if isinstance(e, ast.BinOp):
        return pure_for_def(e.left) and pure_for_def(e.right)
    if isinstance(e, ast.BoolOp):
        return all(pure_for_def(v) for v in e.values)
    if isinstance(e, ast.Compare):
        return pure_for_def(e.left) and all(pure_for_def(c) for c in e.comparators)
    if isinstance(e, ast.IfExp):
        return pure_for_def(e.test) and pure_for_def(e.body) and pure_for_def(e.orelse)
    if isinstance(e, ast.Call) and isinstance(e.func, ast.Name) and e.func.id in _DEF_PURE_FUNCS and not e.keywords:
        return all(pure_for_def(a) for a in e.args)
    if isinstance(e, ast.Call) and isinstance(e.func, ast.Attribute) and e.func.attr in ("get", "check") and not e.keywords:
        # dict.get / Failure.check: reads only
        return pure_for_def(e.func.value) and all(pure_for_def(a) for a in e.args)
    if isinstance(e, ast.Subscript):
        return pure_for_def(e.value) and pure_for_def(e.slice)
    return False


def def_facts(facts):
    """name -> defining expression (ast) for the definition facts among `facts`."""
    out = {}
    for t, pol in facts:
        if pol and t.startswith("(") and " := " in t:
            e = _DEF_CACHE.get(t)
            if e is None:
                try:
                    e = ast.parse(t, mode="eval").body
                except SyntaxError:
                    continue
                _DEF_CACHE[t] = e
            if isinstance(e, ast.NamedExpr):
                out[e.target.id] = e.value
    return out


_DEF_CACHE = {}


class _DefSubst(ast.NodeTransformer):
    def __init__(self, defs):
        self.defs = defs
        self.hit = False

    def visit_Name(self, node):
        if isinstance(node.ctx, ast.Load) and node.id in self.defs:
            self.hit = True
            import copy

            return copy.deepcopy(self.defs[node.id])
        return node

    def visit_Lambda(self, node):
        return node


def resolve_at(facts, expr, rounds=4):
    """expr with every local that a definition fact among `facts` names replaced by its definition (flow-sensitive:
    the fact holds only while neither the local nor anything its definition reads has been written)."""
    import copy

    defs = def_facts(facts)
    e = copy.deepcopy(expr)
    for _ in range(rounds):
        if not defs:
            break
        s = _DefSubst(defs)
        e = s.visit(e)
        if not s.hit:
            break
    return e


def cond_facts(state, test, pol):
    """cond_atoms of the test, plus the atoms of the test with temporaries replaced by their definitions."""
    out = cond_atoms(test, pol)
    defs = def_facts(state)
    used = sorted({x.id for x in ast.walk(test) if isinstance(x, ast.Name) and x.id in defs})
    if used:
        r = resolve_at(state, test)
        out = out | cond_atoms(r, pol)
        # ... and with each temporary replaced on its own: the result must not shrink when MORE definitions are known
        # (a path on which `cursor := end` also holds still establishes the fact about `cursor`)
        if len(used) > 1:
            for nm in used:
                only = frozenset((t, p) for t, p in state if not (t.startswith("(") and " := " in t) or t.startswith("(%s := " % nm))
                out = out | cond_atoms(resolve_at(only, test), pol)
    return out


def cond_atoms(test, pol):
    """Atoms implied by `test` evaluating to `pol`."""
    out = set()
    out.add((unparse(test), pol))
    if isinstance(test, ast.BoolOp):
        if isinstance(test.op, ast.And) and pol:
            for v in test.values:
                out |= cond_atoms(v, True)
        elif isinstance(test.op, ast.Or) and not pol:
            for v in test.values:
                out |= cond_atoms(v, False)
    elif isinstance(test, ast.UnaryOp) and isinstance(test.op, ast.Not):
        out |= cond_atoms(test.operand, not pol)
    elif isinstance(test, ast.Call) and isinstance(test.func, ast.Name) and test.func.id == "bool" and len(test.args) == 1 and not test.keywords:
        out |= cond_atoms(test.args[0], pol)
    elif isinstance(test, ast.Compare) and len(test.ops) == 1:
        left, op, right = test.left, test.ops[0], test.comparators[0]
        is_none = isinstance(right, ast.Constant) and right.value is None
        if is_none and isinstance(op, (ast.Is, ast.Eq)):
            out.add((unparse(left) + " is None", pol))
            if pol:
                out.add((unparse(left), False))
        elif is_none and isinstance(op, (ast.IsNot, ast.NotEq)):
            out.add((unparse(left) + " is None", not pol))
            if not pol:
                out.add((unparse(left), False))
        elif isinstance(op, (ast.Is, ast.IsNot)):
            a, b = unparse(left), unparse(right)
            out.add(("%s is %s" % (a, b), pol if isinstance(op, ast.Is) else not pol))
            out.add(("%s is not %s" % (a, b), (not pol) if isinstance(op, ast.Is) else pol))
        elif isinstance(op, (ast.In, ast.NotIn)):
            a, b = unparse(left), unparse(right)
            out.add(("%s in %s" % (a, b), pol if isinstance(op, ast.In) else not pol))
            out.add(("%s not in %s" % (a, b), (not pol) if isinstance(op, ast.In) else pol))
            if isinstance(right, (ast.Tuple, ast.List, ast.Set)) and right.elts and not any(isinstance(e_, ast.Starred) for e_ in right.elts):
                # membership in a literal collection is the disjunction of the equalities
                member = pol if isinstance(op, ast.In) else not pol
                eqs = ["%s == %s" % (a, unparse(e_)) for e_ in right.elts]
                if member:
                    out.add((" or ".join(eqs), True))
                    if len(eqs) == 1:
                        out.add((eqs[0], True))
                else:
                    for q in eqs:
                        out.add((q, False))
                    out.add((" or ".join(eqs), False))
        else:
            # normalised comparison text with flipped forms
            # all equivalent textual forms: negated operator, swapped operands
            sym = {ast.Lt: "<", ast.LtE: "<=", ast.Gt: ">", ast.GtE: ">=", ast.Eq: "==", ast.NotEq: "!="}
            inv = {"<": ">=", "<=": ">", ">": "<=", ">=": "<", "==": "!=", "!=": "=="}
            swp = {"<": ">", "<=": ">=", ">": "<", ">=": "<=", "==": "==", "!=": "!="}
            s = sym.get(type(op))
            if s:
                a, b = unparse(left), unparse(right)
                out.add(("%s %s %s" % (a, s, b), pol))
                out.add(("%s %s %s" % (a, inv[s], b), not pol))
                out.add(("%s %s %s" % (b, swp[s], a), pol))
                out.add(("%s %s %s" % (b, swp[inv[s]], a), not pol))
    return out


def holds(facts, text, pol=True):
    return (text, pol) in facts


def known_falsy(facts, chain):
    return (chain, False) in facts or (chain + " is None", True) in facts or ("not " + chain, True) in facts


def known_truthy(facts, chain):
    return (chain, True) in facts or ("not " + chain, False) in facts


def _fact_holds(facts, v, pol):
    """the fact set says outright that condition v evaluates to pol (the text itself, or its `not` / `is [not] None`
    spelling) - never through an atom that v merely implies"""
    if (unparse(v), pol) in facts:
        return True
    if isinstance(v, ast.UnaryOp) and isinstance(v.op, ast.Not):
        return _fact_holds(facts, v.operand, not pol)
    if isinstance(v, ast.Compare) and len(v.ops) == 1 and isinstance(v.comparators[0], ast.Constant) and v.comparators[0].value is None:
        base = unparse(v.left) + " is None"
        if isinstance(v.ops[0], (ast.Is, ast.Eq)):
            return (base, pol) in facts
        if isinstance(v.ops[0], (ast.IsNot, ast.NotEq)):
            return (base, not pol) in facts
    return False


def close_facts(facts):
    """Propositional consequences of a fact set: from `not (A and B)` and `A` follows `not B`; from `A or B` and
    `not A` follows `B` (one unknown operand at a time, to a fixed point).  Sound: only modus tollens on the atoms
    the set already holds."""
    facts = set(facts)
    for _ in range(3):
        new = set()
        for t, pol in list(facts):
            if (" and " in t and not pol) or (" or " in t and pol):
                e = _DEF_CACHE.get("#" + t)
                if e is None:
                    try:
                        e = ast.parse(t, mode="eval").body
                    except SyntaxError:
                        continue
                    _DEF_CACHE["#" + t] = e
                if not isinstance(e, ast.BoolOp):
                    continue
                is_and = isinstance(e.op, ast.And)
                if is_and == pol:
                    continue
                unknown = []
                for v in e.values:
                    decided = _fact_holds(facts, v, is_and)
                    if not decided:
                        unknown.append(v)
                if len(unknown) == 1:
                    new |= cond_atoms(unknown[0], not is_and)
        if new <= facts:
            break
        facts |= new
    return frozenset(facts)

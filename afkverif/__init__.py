"""afkverif - repository-specific static checkers for ciena/afkak.

Every verdict is computed from the source text of $VERIF_REPO/afkak/*.py
(default /repo) with ``ast`` only; afkak itself is never imported or run.
"""

__all__ = ["model", "cfg", "report"]

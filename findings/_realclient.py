"""Shared harness of some demonstrations: a Consumer wired to the REAL afkak.client.KafkaClient whose broker client is a
fake that records the encoded requests and lets the script answer them with wire-format replies (task.Clock)."""
import struct
from twisted.internet.defer import Deferred, succeed
from twisted.internet.task import Clock
from afkak.client import KafkaClient
from afkak.common import BrokerMetadata, TopicAndPartition
from afkak.consumer import Consumer
from afkak.kafkacodec import KafkaCodec, create_message

TOPIC, PART, GROUP = "demo", 0, "demo-group"
FETCH, COMMIT = KafkaCodec.FETCH_KEY, KafkaCodec.OFFSET_COMMIT_KEY


class FakeBroker(object):
    def __init__(self):
        self.requests = []

    def makeRequest(self, correlationId, request, expectResponse=True):
        (api_key,) = struct.unpack(">h", request[:2])
        d = Deferred()
        self.requests.append((api_key, correlationId, d))
        return d

    def updateMetadata(self, metadata):
        pass

    def close(self):
        return succeed(None)

    def disconnect(self):
        pass

    def connected(self):
        return True

    def pending(self, api_key):
        return [(c, d) for (k, c, d) in self.requests if k == api_key and not d.called]


def _short(s):
    return struct.pack(">h", len(s)) + s.encode()


def fetch_reply(corr, first_offset, count):
    ms = KafkaCodec._encode_message_set([create_message(b"m%d" % i) for i in range(count)], first_offset)
    return (struct.pack(">ii", corr, 1) + _short(TOPIC) + struct.pack(">i", 1) + struct.pack(">ihq", PART, 0, first_offset + count)
            + struct.pack(">i", len(ms)) + ms)


def commit_reply(corr, error=0):
    return struct.pack(">ii", corr, 1) + _short(TOPIC) + struct.pack(">i", 1) + struct.pack(">ih", PART, error)


class World(object):
    def __init__(self, processor=None, **consumer_kw):
        self.clock = Clock()
        self.client = KafkaClient("kafka.invalid:9092", reactor=self.clock, enable_protocol_version_discovery=False)
        self.bm = BrokerMetadata(1, "kafka.invalid", 9092)
        self.broker = FakeBroker()
        self.client._brokers[1] = self.bm
        self.client.clients[1] = self.broker
        self.prime_metadata()
        self.proc_calls = []
        self.consumer = Consumer(self.client, TOPIC, PART, processor or self._processor, consumer_group=GROUP, **consumer_kw)

    def prime_metadata(self):
        self.client.topics_to_brokers[TopicAndPartition(TOPIC, PART)] = self.bm
        self.client.topic_partitions[TOPIC] = [PART]
        self.client._group_to_coordinator[GROUP] = self.bm

    def _processor(self, consumer, messages):
        self.proc_calls.append([m.offset for m in messages])

    def answer_fetch(self, first_offset, count):
        ((corr, d),) = self.broker.pending(FETCH)
        d.callback(fetch_reply(corr, first_offset, count))

    def answer_commit(self, error=0):
        ((corr, d),) = self.broker.pending(COMMIT)
        d.callback(commit_reply(corr, error))

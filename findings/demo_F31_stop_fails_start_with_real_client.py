"""Demonstration for finding F31 (C13.R2), run with /venv/bin/python.

A consumer on the REAL KafkaClient (attempt limit 1) is stopped while its fetch
is in flight.  "The Deferred returned by start fires exactly once - with the last
processed offset on stop": the real client reports a request cancelled in flight
as FailedPayloadsError (a KafkaError), not as CancelledError, so the consumer's
"stopping and cancelled" test did not recognise its own cancellation and, the
attempt limit being reached, failed the start Deferred with that error.
"""
import os
import sys
sys.path.insert(0, os.path.dirname(os.path.abspath(__file__)))
from twisted.python.failure import Failure
from _realclient import World

bad = []
# a) fetch in flight
w = World(auto_commit_every_n=0, auto_commit_every_ms=0, request_retry_max_attempts=1)
res = []
w.consumer.start(0).addBoth(res.append)
w.answer_fetch(0, 3)
w.clock.advance(0)
w.consumer.stop()
print("a) stop() with a fetch in flight: start() ->", res)
if len(res) != 1 or isinstance(res[0], Failure) or res[0] != 2:
    bad.append("a")
# b) offset lookup in flight
from afkak.consumer import OFFSET_EARLIEST
w = World(auto_commit_every_n=0, auto_commit_every_ms=0, request_retry_max_attempts=1)
res = []
w.consumer.start(OFFSET_EARLIEST).addBoth(res.append)
w.consumer.stop()
print("b) stop() with an offset lookup in flight: start() ->", res)
if len(res) != 1 or isinstance(res[0], Failure):
    bad.append("b")
print("timers left:", len(w.clock.getDelayedCalls()))
sys.exit(1 if bad else 0)

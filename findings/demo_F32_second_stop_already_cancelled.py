"""Demonstration for finding F32 (C13.R6), run with /venv/bin/python.

A commit fails with a retriable error and its retry timer is pending when the
consumer is stopped; it is then started again and - no commit having been sent in
between - stopped again.  "A stopped consumer can be started again": stop() cancels
the commit retry timer but kept the dead handle, so the second stop() cancelled it
again: AlreadyCancelled raised out of stop(), `_stopping` left set, the Deferred
returned by the second start() never fired.
"""
import sys
from unittest.mock import Mock
from twisted.internet.defer import succeed, fail, Deferred
from twisted.internet.task import Clock
from afkak.consumer import Consumer
from afkak.common import FetchResponse, OffsetAndMessage, Message, KafkaUnavailableError

clock = Clock()
client = Mock(reactor=clock)
client.send_offset_commit_request.side_effect = lambda *a, **k: fail(KafkaUnavailableError("down"))
msgs = [OffsetAndMessage(0, Message(0, 0, None, b"m0"))]
client.send_fetch_request.side_effect = [succeed([FetchResponse("t", 0, 0, 1, iter(msgs))])] + [Deferred() for _ in range(5)]
c = Consumer(client, "t", 0, lambda cons, block: None, consumer_group="g", auto_commit_every_n=0, auto_commit_every_ms=0)
c.start(0)
clock.advance(0)
c.commit().addErrback(lambda f: None)
assert c._commit_call is not None and c._commit_call.active(), "commit retry timer should be pending"
c.stop()
res = []
c.start(1).addBoth(res.append)
try:
    c.stop()
    raised = None
except Exception as e:
    raised = type(e).__name__
print("second stop() raised:", raised, "| second start() fired:", res, "| _stopping left set:", c._stopping)
sys.exit(0 if raised is None and len(res) == 1 and not c._stopping else 1)

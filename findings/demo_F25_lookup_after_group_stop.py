"""F25 (C16): a coordinator lookup is issued after the member has left the group.

stop() sets _stopping, cancels the pending rejoin timer and then WAITS for the LeaveGroup reply; only afterwards does
it cancel the join exchange in flight.  If that exchange fails with a retriable error during the wait, its error
handler arms a new rejoin timer.  The timer outlives stop(); when it fires - unfixed - join_and_sync() starts the join
routine, whose first action is a coordinator lookup (FindCoordinator / metadata request) before _stopping is tested.

exit 0: no request of any kind is issued after stop() has completed.
"""
import os
import sys

sys.path.insert(0, os.getcwd())

from unittest.mock import Mock  # noqa: E402

from afkak._group import Coordinator  # noqa: E402
from afkak.common import RebalanceInProgress  # noqa: E402
from twisted.internet.defer import Deferred, succeed  # noqa: E402
from twisted.internet.task import Clock  # noqa: E402
from twisted.python.failure import Failure  # noqa: E402

clock = Clock()
client = Mock(reactor=clock)
log = []
join_d = Deferred()
leave_d = Deferred()


def send_to_coordinator(group, payload, encoder_fn, decode_fn, **kw):
    name = type(payload).__name__
    log.append(name)
    return {"_JoinGroupRequest": join_d, "_LeaveGroupRequest": leave_d}.get(name, Deferred())


client._send_request_to_coordinator.side_effect = send_to_coordinator
client._get_coordinator_for_group.side_effect = lambda g: (log.append("FindCoordinator"), succeed(Mock(node_id=1)))[1]
client.load_metadata_for_topics.side_effect = lambda *t: (log.append("Metadata"), succeed(True))[1]

co = Coordinator(client, "group", ["topic"])
co.on_join_prepare = lambda: succeed(None)
co.start()
co.member_id = "m1"        # as after an earlier successful join: stop() will send LeaveGroup
co.coordinator_broker = Mock()
assert log[-1] == "_JoinGroupRequest", log
stop_d = co.stop()         # waits for the leave reply
assert log[-1] == "_LeaveGroupRequest", log
join_d.errback(Failure(RebalanceInProgress()))   # the exchange in flight fails retriably during the wait
leave_d.callback(Mock(error=0))
before = len(log)
clock.advance(120)
after_stop = log[before:]
print("requests:", log, "| issued after stop():", after_stop)
if after_stop:
    print("PROPERTY VIOLATED: %s issued after the member left the group" % after_stop)
    sys.exit(1)
print("ok")

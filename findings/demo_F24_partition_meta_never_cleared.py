"""F24 (C20 / C08): the per-partition metadata cache is never cleared.

_merge_topic_metadata fills four per-topic caches (topic_partitions, topics_to_brokers, topic_errors,
partition_meta) but reset_topic_metadata / reset_all_metadata dropped only three of them.  Unfixed, (a) after close()
the client still answers partition_fully_replicated() from cached data, (b) a partition that disappeared from a topic
keeps its entry for ever.

exit 0: close() leaves partition_meta empty, and a metadata reply that no longer lists partition 1 removes its entry.
"""
import os
import sys

sys.path.insert(0, os.getcwd())

from afkak.client import KafkaClient  # noqa: E402
from afkak.common import BrokerMetadata, PartitionMetadata, TopicAndPartition, TopicMetadata  # noqa: E402
from twisted.internet.task import Clock  # noqa: E402

client = KafkaClient("boot:9092", reactor=Clock(), enable_protocol_version_discovery=False)
brokers = {1: BrokerMetadata(1, "k1", 9092)}


def topic(parts):
    return {"t": TopicMetadata("t", 0, {p: PartitionMetadata("t", p, 0, 1, (1,), (1,)) for p in parts})}


client._merge_topic_metadata(brokers, topic([0, 1]), True)
client._merge_topic_metadata(brokers, topic([0]), True)  # partition 1 is gone
bad = []
if TopicAndPartition("t", 1) in client.partition_meta:
    bad.append("partition 1 vanished from the reply but is still in partition_meta")
client.close()
if client.partition_meta:
    bad.append("after close() partition_meta still holds %s" % sorted(client.partition_meta))
print("partition_meta after close:", dict(client.partition_meta))
if bad:
    print("PROPERTY VIOLATED: " + "; ".join(bad))
    sys.exit(1)
print("ok")

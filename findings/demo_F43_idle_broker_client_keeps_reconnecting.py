#!/usr/bin/env python
"""
A broker client with nothing left to send keeps dialling.

"The connection is re-established, with the configured backoff between failed attempts ..., whenever unanswered
requests remain, and an idle dropped connection is re-opened only on the next request."

A request is made while the broker is down: the broker client starts its connect loop.  The request is cancelled (the
client's timeout does that to every request when a broker stays down), so nothing remains to be sent.  The script
lets the clock run: no further connection attempt may be made while the client is idle - and a new request must start
one again.

Exit status 0: holds.  Non-zero: violated.
"""
import os
import signal
import struct
import sys

sys.path.insert(0, os.environ.get("AFKAK_SRC", "/repo"))

from twisted.internet.defer import Deferred  # noqa: E402
from twisted.internet.error import ConnectionRefusedError  # noqa: E402
from twisted.internet.task import Clock  # noqa: E402

from afkak.brokerclient import _KafkaBrokerClient  # noqa: E402
from afkak.common import BrokerMetadata  # noqa: E402

signal.alarm(20)


class Endpoint(object):
    def __init__(self):
        self.attempts = []

    def connect(self, factory):
        d = Deferred()
        self.attempts.append(d)
        return d


def req(i):
    return struct.pack(">hhih", 0, 0, i, 0) + b"x"


def main():
    ep = Endpoint()
    clock = Clock()
    bc = _KafkaBrokerClient(clock, lambda reactor, host, port: ep, BrokerMetadata(1, "h", 9092), "cid", lambda failures: 1.0)
    d1 = bc.makeRequest(1, req(1))
    d1.addErrback(lambda f: None)
    assert len(ep.attempts) == 1
    ep.attempts[0].errback(ConnectionRefusedError())  # broker down: back-off 1 s
    d1.cancel()  # the caller's timeout fires: nothing is waiting any more
    problems = []
    if bc.requests:
        problems.append("cancelled request still queued: %r" % (list(bc.requests),))
    n = len(ep.attempts)
    for _ in range(60):
        clock.advance(0.5)
        for a in ep.attempts:
            if not a.called:
                a.errback(ConnectionRefusedError())
    extra = len(ep.attempts) - n
    if extra:
        problems.append("%d connection attempt(s) in 30 s with no request waiting" % extra)
    # the next request connects again, at once
    n = len(ep.attempts)
    d2 = bc.makeRequest(2, req(2))
    d2.addErrback(lambda f: None)
    clock.advance(1.0)  # at most one back-off period
    if len(ep.attempts) < n + 1:
        problems.append("a new request did not lead to a connection attempt")
    bc.close()
    for p in problems:
        print("VIOLATION: " + p)
    print("OK" if not problems else "FAIL")
    return 1 if problems else 0


if __name__ == "__main__":
    sys.exit(main())

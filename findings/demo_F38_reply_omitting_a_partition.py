#!/usr/bin/env python
"""
A broker reply that leaves out one of the partitions the request asked about.

The real afkak.client.KafkaClient is wired to a fake broker connection that records the encoded requests and lets the
script answer them with wire-format replies.  One broker leads partitions 0 and 1 of a topic.

1. client.send_produce_request([p0, p1]) -> the reply acknowledges partition 0 only.  The property of the routing layer
   says the responses (and, on failure, the failed payloads) "together account for every payload exactly once": the
   call must not succeed with a list that silently lacks the answer for partition 1.
2. Producer.send_messages to partition 0 and to partition 1 in one batch, same reply: the Deferred of the send to
   partition 1 must fire (with a failure) - "in every other outcome it fails with an exception ... it fires exactly once".

Exit status 0: both hold.  Non-zero: violated.
"""
import os
import signal
import struct
import sys

sys.path.insert(0, os.environ.get("AFKAK_SRC", "/repo"))

from twisted.internet.defer import Deferred, succeed  # noqa: E402
from twisted.internet.task import Clock  # noqa: E402
from twisted.python.failure import Failure  # noqa: E402

from afkak.client import KafkaClient  # noqa: E402
from afkak.common import BrokerMetadata, ProduceRequest, TopicAndPartition  # noqa: E402
from afkak.kafkacodec import KafkaCodec, create_message  # noqa: E402
from afkak.producer import Producer  # noqa: E402

signal.alarm(20)
TOPIC = "demo"


class FakeBroker(object):
    def __init__(self):
        self.requests = []

    def makeRequest(self, correlationId, request, expectResponse=True):
        (api_key,) = struct.unpack(">h", request[:2])
        d = Deferred()
        self.requests.append((api_key, correlationId, d))
        return d

    def updateMetadata(self, metadata):
        pass

    def close(self):
        return succeed(None)

    def disconnect(self):
        pass

    def connected(self):
        return True

    def pending(self, api_key):
        return [(c, d) for (k, c, d) in self.requests if k == api_key and not d.called]


def _short(s):
    return struct.pack(">h", len(s)) + s.encode()


def produce_reply_v0(corr, partitions):
    out = struct.pack(">ii", corr, 1) + _short(TOPIC) + struct.pack(">i", len(partitions))
    for part, offset in partitions:
        out += struct.pack(">ihq", part, 0, offset)
    return out


def world():
    clock = Clock()
    client = KafkaClient("kafka.invalid:9092", reactor=clock, enable_protocol_version_discovery=False)
    bm = BrokerMetadata(1, "kafka.invalid", 9092)
    broker = FakeBroker()
    client._brokers[1] = bm
    client.clients[1] = broker
    for part in (0, 1):
        client.topics_to_brokers[TopicAndPartition(TOPIC, part)] = bm
    client.topic_partitions[TOPIC] = [0, 1]
    client.topic_errors[TOPIC] = 0
    return clock, client, broker


def scenario_client():
    clock, client, broker = world()
    payloads = [ProduceRequest(TOPIC, 0, [create_message(b"a")]), ProduceRequest(TOPIC, 1, [create_message(b"b")])]
    res = []
    client.send_produce_request(payloads).addBoth(res.append)
    ((corr, d),) = broker.pending(KafkaCodec.PRODUCE_KEY)
    d.callback(produce_reply_v0(corr, [(0, 10)]))
    if not res:
        return ["send_produce_request has not completed"]
    r = res[0]
    if isinstance(r, Failure):
        args = r.value.args
        ok = len(args) == 2 and [x.partition for x in args[0]] == [0] and [p.partition for p, _ in args[1]] == [1]
        return [] if ok else ["failed, but responses/failed payloads do not account for both payloads: %r" % (r.value,)]
    return ["succeeded with %d response(s) for 2 payloads: %r - partition 1 is not accounted for" % (len(r), r)]


def scenario_producer():
    clock, client, broker = world()

    class ByKey(object):
        def __init__(self, topic, partitions):
            pass

        def partition(self, key, partitions):
            return int(key)

    producer = Producer(client, partitioner_class=ByKey, batch_send=True, batch_every_n=2, batch_every_t=0, batch_every_b=0)
    r0, r1 = [], []
    producer.send_messages(TOPIC, key=b"0", msgs=[b"a"]).addBoth(r0.append)
    producer.send_messages(TOPIC, key=b"1", msgs=[b"b"]).addBoth(r1.append)
    clock.advance(0)
    pend = broker.pending(KafkaCodec.PRODUCE_KEY)
    if len(pend) != 1:
        return ["expected one produce request, saw %d" % len(pend)]
    corr, d = pend[0]
    d.callback(produce_reply_v0(corr, [(0, 10)]))
    # let every retry the producer wants to make go out and be answered the same way
    for _ in range(200):
        clock.advance(1.0)
        for corr, d in broker.pending(KafkaCodec.PRODUCE_KEY):
            d.callback(produce_reply_v0(corr, []))
    problems = []
    if len(r0) != 1 or isinstance(r0[0], Failure):
        problems.append("send to partition 0: %r" % (r0,))
    if len(r1) != 1:
        problems.append("send to partition 1 fired %d times (never completes)" % len(r1))
    elif not isinstance(r1[0], Failure):
        problems.append("send to partition 1 reported success: %r" % (r1[0],))
    return problems


def main():
    bad = 0
    for fn in (scenario_client, scenario_producer):
        problems = fn()
        print("%s: %s" % (fn.__name__, "VIOLATION" if problems else "ok"))
        for p in problems:
            print("    " + p)
        bad += bool(problems)
    return 1 if bad else 0


if __name__ == "__main__":
    sys.exit(main())

"""Demonstration for finding F13 (C09.R3), run with /venv/bin/python.

Attempt 1: partition 0 is acknowledged, partition 1 answers NotLeader -> only
partition 1 is retried.  Attempt 2 (the retry) fails as a whole with a
KafkaError raised by the client (leader unavailable).  Attempt 3 must again
carry only partition 1; before the fix the handler rebuilt the failed list from
the payloads of the *original* batch and re-sent the acknowledged partition 0
(duplicate messages on the broker).
"""
import sys
from unittest.mock import Mock
from twisted.internet.defer import succeed, fail, Deferred
from twisted.internet.task import Clock
from afkak.producer import Producer
from afkak.partitioner import HashedPartitioner
from afkak.common import ProduceResponse, LeaderUnavailableError

clock = Clock()
client = Mock(reactor=clock)
client.topic_partitions = {"t": [0, 1]}
client.metadata_error_for_topic.return_value = 0
client._api_versions = 0
sent = []
def send(payloads, **kw):
    sent.append(sorted(p.partition for p in payloads))
    n = len(sent)
    if n == 1:
        return succeed([ProduceResponse("t", 0, 0, 10), ProduceResponse("t", 1, 6, -1)])
    if n == 2:
        return fail(LeaderUnavailableError("no leader for t/1"))
    return Deferred()
client.send_produce_request.side_effect = send
class ByKey(object):
    def __init__(self, topic, partitions): pass
    def partition(self, key, partitions): return int(key)
p = Producer(client, partitioner_class=ByKey, batch_send=True, batch_every_n=2, batch_every_b=0, batch_every_t=0)
acks = []
p.send_messages("t", key=b"0", msgs=[b"a"]).addBoth(acks.append)
p.send_messages("t", key=b"1", msgs=[b"b"]).addBoth(acks.append)
for _ in range(4):
    clock.advance(1)
print("partitions per produce attempt:", sent)
ok = sent[:3] == [[0, 1], [1], [1]]
sys.exit(0 if ok else 1)

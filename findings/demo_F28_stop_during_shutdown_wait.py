"""Demonstration for finding F28 (C13.R5), run with /venv/bin/python.

shutdown() (no consumer group) is waiting for the processor when stop() is
called.  stop() cancels the processor Deferred; the shutdown continuation
registered on it runs inside stop() and - nothing to commit - calls stop()
again.  Before the fix that nested stop() completed and the outer one then
crashed on the cleared start Deferred (AttributeError raised out of stop()).
"""
import sys
from unittest.mock import Mock
from twisted.internet.defer import succeed, Deferred
from twisted.internet.task import Clock
from afkak.consumer import Consumer
from afkak.common import FetchResponse, OffsetAndMessage, Message

clock = Clock()
client = Mock(reactor=clock)
msgs = [OffsetAndMessage(0, Message(0, 0, None, b"m0"))]
client.send_fetch_request.side_effect = [succeed([FetchResponse("t", 0, 0, 1, iter(msgs))]), Deferred(), Deferred()]
proc_d = Deferred()
c = Consumer(client, "t", 0, lambda cons, block: proc_d)
res, sres = [], []
c.start(0).addCallbacks(lambda r: res.append(("ok", r)), lambda f: res.append(("fail", f.type.__name__)))
clock.advance(0)
c.shutdown().addCallbacks(lambda r: sres.append(("ok", r)), lambda f: sres.append(("fail", f.type.__name__)))
assert not sres and not res
try:
    c.stop()
    raised = None
except Exception as e:
    raised = "%s: %s" % (type(e).__name__, e)
print("stop() raised:", raised, "| start():", res, "| shutdown():", sres)
sys.exit(0 if raised is None and len(res) == 1 and len(sres) == 1 else 1)

"""Demonstration for finding F9 (C17.R1), run with /venv/bin/python.

The coordinator lookup succeeds but the topic metadata load that follows it
fails with KafkaUnavailableError (a transient condition).  The member must
schedule a rejoin; before the fix the join routine's terminal errback only
logged the error: no timer, no heartbeat, start() Deferred unfired - for ever.
Second part (known finding, not fixed): a non-Kafka exception at the same step
must surface on the Deferred returned by start(); it is swallowed.
"""
import sys
from unittest.mock import Mock
from twisted.internet.defer import fail, succeed
from twisted.internet.task import Clock
from afkak._group import Coordinator
from afkak.common import BrokerMetadata, KafkaUnavailableError

def run(exc):
    clock = Clock()
    client = Mock(reactor=clock)
    client._get_coordinator_for_group.side_effect = lambda g: succeed(BrokerMetadata(1, "h", 9092))
    client.load_metadata_for_topics.side_effect = lambda *t: fail(exc)
    c = Coordinator(client, "g", ["t"])
    out = []
    c.start().addBoth(out.append)
    lookups_before = client._get_coordinator_for_group.call_count
    clock.advance(60)
    return len(clock.getDelayedCalls()), client._get_coordinator_for_group.call_count - lookups_before, out

pending, retried, out = run(KafkaUnavailableError("metadata load failed"))
print("Kafka error:     delayed calls pending=%d, lookups retried within 60s=%d, start() fired=%s" % (pending, retried, bool(out)))
ok = retried >= 1
pending, retried, out = run(RuntimeError("bug"))
print("non-Kafka error: delayed calls pending=%d, lookups retried within 60s=%d, start() fired=%s  (known finding)" % (pending, retried, bool(out)))
sys.exit(0 if ok else 1)

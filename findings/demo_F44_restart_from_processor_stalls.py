#!/usr/bin/env python
"""
A consumer restarted by its own processor stalls after one block (real KafkaClient, fake broker connection).

The processor decides to start over (say, to re-read from an earlier offset): it calls consumer.stop() and
consumer.start(x).  "A stopped consumer can be started again" - and a started consumer delivers every message of its
partition.  The script lets the restarted consumer's fetch replies arrive one by one and checks that it keeps asking
for more: after the restart at offset 0 it must deliver 0..2, 3..5, 6..8.

Exit status 0: holds.  Non-zero: violated.
"""
import os
import signal
import sys

sys.path.insert(0, os.environ.get("AFKAK_SRC", "/repo"))
sys.path.insert(0, os.path.dirname(os.path.abspath(__file__)))

from _realclient import FETCH, World, fetch_reply  # noqa: E402

signal.alarm(20)


def main():
    delivered = []
    state = {"restarted": False, "start_results": []}

    def processor(consumer, messages):
        offsets = [m.offset for m in messages]
        delivered.append(offsets)
        if not state["restarted"] and offsets[-1] >= 5:
            state["restarted"] = True
            consumer.stop()
            consumer.start(0).addBoth(state["start_results"].append)

    w = World(processor=processor, auto_commit_every_n=0, auto_commit_every_ms=0)
    w.consumer.start(0).addBoth(lambda r: None)
    problems = []
    expected_after = [[0, 1, 2], [3, 4, 5], [6, 7, 8]]
    for step in range(12):
        w.clock.advance(0.05)
        pend = w.broker.pending(FETCH)
        if not pend:
            w.clock.advance(1.0)
            pend = w.broker.pending(FETCH)
        if not pend:
            break
        # answer the outstanding fetch with the three messages at the position the consumer asked for
        corr, d = pend[0]
        d.callback(fetch_reply(corr, w.consumer._fetch_offset, 3))
    after = delivered[2:] if state["restarted"] else []
    if not state["restarted"]:
        problems.append("the scenario did not get to the restart: delivered %r" % (delivered,))
    elif after[:3] != expected_after:
        problems.append("after the restart at 0 the consumer delivered %r (expected %r ...): it stopped fetching" % (after, expected_after))
    if state["start_results"]:
        problems.append("the restarted consumer's start Deferred fired: %r" % (state["start_results"],))
    for p in problems:
        print("VIOLATION: " + p)
    print("OK" if not problems else "FAIL")
    return 1 if problems else 0


if __name__ == "__main__":
    sys.exit(main())

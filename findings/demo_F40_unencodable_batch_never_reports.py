#!/usr/bin/env python
"""
A batch that cannot be turned into a request: the sends must fail, not hang.

Producer(codec=CODEC_SNAPPY) is accepted whether or not python-snappy is installed (the constructor only checks that
the codec is a known one).  Without the library, building the message set raises NotImplementedError in the send stage
of the batch - after the requests have been taken off the queue.  The property says the Deferred returned for a send
"fires exactly once" and that in every outcome other than an acknowledged write "it fails with an exception".

The script runs the real Producer on the real KafkaClient (fake broker connection), with snappy reported as not
installed (which is the case in this environment anyway), sends two messages and checks that both Deferreds have
fired with a failure, that nothing was written to the broker, and that the producer is not wedged: a later send with
a working producer configuration goes out.

Exit status 0: holds.  Non-zero: violated.
"""
import os
import signal
import struct
import sys

sys.path.insert(0, os.environ.get("AFKAK_SRC", "/repo"))

from twisted.internet.defer import Deferred, succeed  # noqa: E402
from twisted.internet.task import Clock  # noqa: E402
from twisted.python.failure import Failure  # noqa: E402

import afkak.codec  # noqa: E402
from afkak.client import KafkaClient  # noqa: E402
from afkak.common import CODEC_SNAPPY, BrokerMetadata, TopicAndPartition  # noqa: E402
from afkak.producer import Producer  # noqa: E402

signal.alarm(20)
TOPIC = "demo"
afkak.codec._has_snappy = False  # python-snappy is not installed


class FakeBroker(object):
    def __init__(self):
        self.requests = []

    def makeRequest(self, correlationId, request, expectResponse=True):
        (api_key,) = struct.unpack(">h", request[:2])
        d = Deferred()
        self.requests.append((api_key, correlationId, d))
        return d

    def updateMetadata(self, metadata):
        pass

    def close(self):
        return succeed(None)

    def disconnect(self):
        pass

    def connected(self):
        return True


def main():
    clock = Clock()
    client = KafkaClient("kafka.invalid:9092", reactor=clock, enable_protocol_version_discovery=False)
    bm = BrokerMetadata(1, "kafka.invalid", 9092)
    broker = FakeBroker()
    client._brokers[1] = bm
    client.clients[1] = broker
    client.topics_to_brokers[TopicAndPartition(TOPIC, 0)] = bm
    client.topic_partitions[TOPIC] = [0]
    client.topic_errors[TOPIC] = 0

    producer = Producer(client, codec=CODEC_SNAPPY, batch_send=True, batch_every_n=2, batch_every_t=0, batch_every_b=0)
    r1, r2 = [], []
    producer.send_messages(TOPIC, msgs=[b"a"]).addBoth(r1.append)
    producer.send_messages(TOPIC, msgs=[b"b"]).addBoth(r2.append)
    clock.pump([0.1] * 50)
    problems = []
    for name, r in (("first", r1), ("second", r2)):
        if len(r) != 1:
            problems.append("%s send: Deferred fired %d times (the caller never hears about it)" % (name, len(r)))
        elif not isinstance(r[0], Failure):
            problems.append("%s send reported success: %r" % (name, r[0]))
    if broker.requests:
        problems.append("something was written to the broker: %r" % (broker.requests,))
    if producer._batch_send_d is not None:
        problems.append("the producer still believes a batch is in flight")
    for p in problems:
        print("VIOLATION: " + p)
    print("OK" if not problems else "FAIL")
    return 1 if problems else 0


if __name__ == "__main__":
    sys.exit(main())

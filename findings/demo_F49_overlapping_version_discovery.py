#!/usr/bin/env python
"""
Two operations discover the broker's API versions at the same time (real KafkaClient; the broker-agnostic send is stubbed
so that the script decides how each ApiVersions request ends).

A client with version discovery enabled is used for a fetch and a produce at once: both find the version table
undiscovered and both ask.  The first request is answered (Produce up to v3, Fetch up to v3); the second one times out.
Discovery has succeeded - the table the broker advertised must stay in force: the version chosen for produce and fetch
is "one the broker advertised", and the fall-back to version 0 is for the case "when discovery fails".

Exit status 0: holds.  Non-zero: violated (the attempt that failed finds the loop condition `table is None` false, leaves
the loop without a reply, and stores the fall-back state over the discovered table: the client drops to version 0 - a
format-1 batch already built for v2 and retried now goes out under a v0 header).
"""
import os
import signal
import struct
import sys

sys.path.insert(0, os.environ.get("AFKAK_SRC", "/repo"))

from twisted.internet.defer import Deferred  # noqa: E402
from twisted.internet.task import Clock  # noqa: E402

from afkak.client import KafkaClient  # noqa: E402
from afkak.common import KafkaUnavailableError  # noqa: E402
from afkak.kafkacodec import KafkaCodec  # noqa: E402

signal.alarm(20)


def api_versions_reply(corr, versions):
    out = struct.pack(">ihi", corr, 0, len(versions))
    for key, lo, hi in versions:
        out += struct.pack(">hhh", key, lo, hi)
    return out


def main():
    clock = Clock()
    client = KafkaClient("kafka.invalid:9092", reactor=clock, enable_protocol_version_discovery=True)
    asked = []

    def unaware(request_id, request):
        d = Deferred()
        asked.append((request_id, d))
        return d

    client._send_broker_unaware_request = unaware
    got = []
    client.get_api_version(KafkaCodec.FETCH_KEY).addBoth(lambda r: got.append(("fetch", r)))
    client.get_api_version(KafkaCodec.PRODUCE_KEY).addBoth(lambda r: got.append(("produce", r)))
    problems = []
    if len(asked) != 2:
        problems.append("expected two ApiVersions requests in flight, saw %d" % len(asked))
    else:
        table = [(k, 0, 3 if k in (KafkaCodec.PRODUCE_KEY, KafkaCodec.FETCH_KEY) else 0) for k in range(0, 19)]
        asked[0][1].callback(api_versions_reply(asked[0][0], table))  # discovery succeeds ...
        asked[1][1].errback(KafkaUnavailableError("timed out"))        # ... the parallel attempt does not
        for _ in range(5):
            clock.advance(1)
        later = []
        client.get_api_version(KafkaCodec.PRODUCE_KEY).addBoth(later.append)
        if later != [3]:
            problems.append("after a successful discovery (Produce v0-v3 advertised) the produce version is %r; first answers: %r" % (later, got))
    for p in problems:
        print("VIOLATION: " + p)
    print("OK" if not problems else "FAIL")
    return 1 if problems else 0


if __name__ == "__main__":
    sys.exit(main())

"""Demonstration for finding F34 (C07.R7), run with /venv/bin/python.

Two brokers are known.  A broker-agnostic request (a metadata lookup) is waiting
for the first one when a full metadata refresh - the answer to another lookup -
removes the second from the cluster.  The first broker then fails the request.
"Broker-agnostic requests are tried on every known broker ... and then on every
bootstrap host before failing": the loop went on to the removed node, looking it
up raised KeyError, and the operation failed at once with "unavailable" - neither
the bootstrap host nor anything else was tried.
"""
import struct
import sys
from twisted.internet.defer import Deferred, succeed
from twisted.internet.task import Clock
from afkak.client import KafkaClient
from afkak.common import BrokerMetadata, RequestTimedOutError

attempts = []


class EP(object):
    def __init__(self, reactor, host, port):
        self.host = host

    def connect(self, factory):
        d = Deferred()
        attempts.append(self.host)
        return d


class FakeBroker(object):
    def __init__(self, node):
        self.node, self.reqs = node, []
        self.host, self.port = "b%d" % node, 9092

    def makeRequest(self, cid, request, expectResponse=True):
        d = Deferred()
        self.reqs.append((cid, d))
        return d

    def connected(self):
        return self.node == 1

    def updateMetadata(self, m):
        pass

    def close(self):
        return succeed(None)

    def disconnect(self):
        pass


clock = Clock()
client = KafkaClient("boot:9092", reactor=clock, endpoint_factory=EP, enable_protocol_version_discovery=False)
b1, b2 = FakeBroker(1), FakeBroker(2)
client._brokers = {1: BrokerMetadata(1, "b1", 9092), 2: BrokerMetadata(2, "b2", 9092)}
client.clients = {1: b1, 2: b2}
res = []
client.load_metadata_for_topics("t").addBoth(res.append)
assert len(b1.reqs) == 1 and not b2.reqs, "connected broker 1 is tried first"
# a full refresh (answer to another lookup) now lists broker 1 only
client._update_brokers([BrokerMetadata(1, "b1", 9092)], remove=True)
# broker 1 fails the request
b1.reqs[0][1].errback(RequestTimedOutError("silent"))
print("bootstrap host dialled:", attempts, "| operation result so far:", res)
sys.exit(0 if attempts == ["boot"] and not res else 1)

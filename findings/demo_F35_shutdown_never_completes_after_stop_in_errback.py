"""Demonstration for finding F35 (C13.R5), run with /venv/bin/python.

shutdown() (consumer group set) is waiting for the processor; the processor then
fails; the application's errback on the Deferred returned by start() stops the
consumer - the usual reaction to that failure.  "The Deferred returned by
shutdown fires once; a stopped consumer can be started again": the shutdown step
ran after the consumer had been stopped, sent a commit from the stopped consumer
and, when that was acknowledged, called stop() again: RestopError inside the
callback chain - the Deferred returned by shutdown() never fired and
`_shuttingdown` stayed set, so a restarted consumer consumed nothing.
"""
import sys
from unittest.mock import Mock
from twisted.internet.defer import succeed, Deferred
from twisted.internet.task import Clock
from afkak.consumer import Consumer
from afkak.common import FetchResponse, OffsetAndMessage, Message, OffsetCommitResponse

clock = Clock()
client = Mock(reactor=clock)
client.send_offset_commit_request.side_effect = lambda *a, **k: succeed([OffsetCommitResponse("t", 0, 0)])
msgs = [OffsetAndMessage(0, Message(0, 0, None, b"m0")), OffsetAndMessage(1, Message(0, 0, None, b"m1"))]
client.send_fetch_request.side_effect = [succeed([FetchResponse("t", 0, 0, 2, iter(msgs))])] + [Deferred() for _ in range(6)]
proc_ds = []


def processor(cons, block):
    d = Deferred()
    proc_ds.append(d)
    return d


c = Consumer(client, "t", 0, processor, consumer_group="g", auto_commit_every_n=1, auto_commit_every_ms=0)
res, sres = [], []
start_d = c.start(0)
start_d.addErrback(lambda f: (res.append(("fail", f.type.__name__)), c.stop())[0])   # the application stops a failed consumer
clock.advance(0)
proc_ds[0].callback(None)            # block [0] done (offset 0 processed), block [1] handed over
clock.advance(0)
c.shutdown().addCallbacks(lambda r: sres.append(("ok", r)), lambda f: sres.append(("fail", f.type.__name__)))
n_commits = client.send_offset_commit_request.call_count
proc_ds[1].errback(RuntimeError("processor failed"))
clock.advance(0)
sent_after_stop = client.send_offset_commit_request.call_count - n_commits
print("start():", res, "| shutdown():", sres, "| commit requests sent by the stopped consumer:", sent_after_stop,
      "| _shuttingdown left set:", c._shuttingdown)
sys.exit(0 if len(sres) == 1 and not c._shuttingdown and sent_after_stop == 0 else 1)

"""F17 (C10 / C06): a request cancelled from a callback that runs inside _sendQueued() is still written.

Requests 1 (expects no reply), 2 and 3 are queued while the broker client is connecting.  When the connection comes
up _sendQueued() iterates a copy of the table; writing request 1 completes it at once (no reply expected) and its
callback cancels request 2, which is still unsent and is therefore removed from the table.  Unfixed, the loop goes on
with its copy and writes request 2 to the wire although it was cancelled before being sent.

exit 0: only requests 1 and 3 are written.
"""
import os
import struct
import sys

sys.path.insert(0, os.getcwd())

from afkak.brokerclient import _KafkaBrokerClient  # noqa: E402
from afkak.common import BrokerMetadata  # noqa: E402
from twisted.internet.defer import Deferred  # noqa: E402
from twisted.internet.task import Clock  # noqa: E402
from twisted.test.proto_helpers import StringTransport  # noqa: E402


class Endpoint(object):
    def __init__(self):
        self.d = None
        self.factory = None

    def connect(self, factory):
        self.factory = factory
        self.d = Deferred()
        return self.d


ep = Endpoint()
clock = Clock()
bc = _KafkaBrokerClient(clock, lambda reactor, host, port: ep, BrokerMetadata(1, "h", 9092), "cid", lambda failures: 1.0)


def req(i):
    return struct.pack(">hhih", 0, 0, i, 0) + b"x"


d1 = bc.makeRequest(1, req(1), expectResponse=False)
d2 = bc.makeRequest(2, req(2))
d3 = bc.makeRequest(3, req(3))
d2.addErrback(lambda f: None)
d1.addCallback(lambda _: d2.cancel())  # runs synchronously inside _sendQueued()

proto = ep.factory.buildProtocol(None)
transport = StringTransport()
proto.makeConnection(transport)
ep.d.callback(proto)

data = transport.value()
ids = []
while data:
    (n,) = struct.unpack(">i", data[:4])
    frame, data = data[4:4 + n], data[4 + n:]
    ids.append(struct.unpack(">i", frame[4:8])[0])
print("correlation ids written:", ids)
if 2 in ids:
    print("PROPERTY VIOLATED: request 2 was cancelled before it was sent, yet it was written to the broker")
    sys.exit(1)
if ids != [1, 3]:
    print("unexpected:", ids)
    sys.exit(1)
print("ok")

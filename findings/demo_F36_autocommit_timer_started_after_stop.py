"""Demonstration for finding F36 (C13.R3), run with /venv/bin/python.

The first fetch reply is available at once and the processor - called from
inside start() - stops the consumer (it has seen what it was waiting for).
"After stop returns ... no fetch, commit or timer activity remains": start() set
up the automatic-commit timer only after the first fetch had been issued, i.e.
after that stop(): the stopped consumer kept a LoopingCall running.
"""
import sys
from unittest.mock import Mock
from twisted.internet.defer import succeed, Deferred
from twisted.internet.task import Clock
from afkak.consumer import Consumer
from afkak.common import FetchResponse, OffsetAndMessage, Message

clock = Clock()
client = Mock(reactor=clock)
msgs = [OffsetAndMessage(0, Message(0, 0, None, b"m0"))]
client.send_fetch_request.side_effect = [succeed([FetchResponse("t", 0, 0, 1, iter(msgs))])] + [Deferred() for _ in range(3)]
client.send_offset_commit_request.side_effect = lambda *a, **k: Deferred()


def processor(cons, block):
    cons.stop()


c = Consumer(client, "t", 0, processor, consumer_group="g", auto_commit_every_n=0, auto_commit_every_ms=1000)
res = []
c.start(0).addBoth(res.append)
timers = clock.getDelayedCalls()
running = c._commit_looper is not None and c._commit_looper.running
n0 = client.send_offset_commit_request.call_count
clock.pump([1.0] * 5)
print("start():", res, "| timers on the clock after the stop:", len(timers), "| auto-commit looper running:", running,
      "| commit requests from the stopped consumer:", client.send_offset_commit_request.call_count - n0)
sys.exit(0 if not timers and not running and client.send_offset_commit_request.call_count == n0 else 1)

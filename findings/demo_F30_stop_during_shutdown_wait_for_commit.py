"""Demonstration for finding F30 (C13.R9), run with /venv/bin/python.

An automatic commit is in flight and newer messages have been processed when
shutdown() is called (it waits for the commit in flight); the application then
calls stop().  stop() must return, leave nothing running and fire the Deferreds
once.  With the continuation registered for both outcomes of the commit in flight
(the repair of F27) and no look at the stopping flag, the cancellation issued by
stop() re-ran the shutdown step, which queued a new waiter behind the commit in
flight, which stop()'s cancel loop cancelled again - for ever: stop() never
returned.  (Before F27's repair the waiter's cancellation was simply unhandled and
the Deferred returned by shutdown() never fired.)
"""
import os
import signal
import sys
from unittest.mock import Mock
from twisted.internet.defer import succeed, Deferred
from twisted.internet.task import Clock
from afkak.consumer import Consumer
from afkak.common import FetchResponse, OffsetAndMessage, Message


def _timeout(*a):
    print("stop() did not return within 5 s (endless cancel/re-commit loop)", flush=True)
    os._exit(1)  # a SystemExit raised inside a callback chain would be swallowed by it


signal.signal(signal.SIGALRM, _timeout)
signal.alarm(5)
clock = Clock()
client = Mock(reactor=clock)
client.send_offset_commit_request.side_effect = lambda *a, **k: Deferred()
msgs = [OffsetAndMessage(0, Message(0, 0, None, b"m0")), OffsetAndMessage(1, Message(0, 0, None, b"m1"))]
client.send_fetch_request.side_effect = [succeed([FetchResponse("t", 0, 0, 2, iter(msgs))]), Deferred(), Deferred()]
c = Consumer(client, "t", 0, lambda cons, block: None, consumer_group="g", auto_commit_every_n=1, auto_commit_every_ms=0)
res, sres = [], []
c.start(0).addCallbacks(lambda r: res.append(("ok", r)), lambda f: res.append(("fail", f.type.__name__)))
clock.advance(0)
assert client.send_offset_commit_request.call_count == 1 and c.last_processed_offset == 1
c.shutdown().addCallbacks(lambda r: sres.append(("ok", r)), lambda f: sres.append(("fail", f.type.__name__)))
assert not sres
n_before = client.send_offset_commit_request.call_count
c.stop()
signal.alarm(0)
print("stop() returned | commit requests issued by stop():", client.send_offset_commit_request.call_count - n_before,
      "| start():", res, "| shutdown():", sres, "| timers:", len(clock.getDelayedCalls()))
ok = len(res) == 1 and len(sres) == 1 and client.send_offset_commit_request.call_count == n_before and not clock.getDelayedCalls()
sys.exit(0 if ok else 1)

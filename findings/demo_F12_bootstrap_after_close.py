"""Demonstration for finding F12 (C20.R4), run with /venv/bin/python.

The client is bootstrapping (metadata load in progress against the first of two
bootstrap hosts) when close() is called.  The first host then refuses the
connection.  After close() no new connection may be attempted; before the fix
the bootstrap loop went on to dial the second host.
"""
import sys
from twisted.internet.defer import Deferred
from twisted.internet.error import ConnectionRefusedError
from twisted.internet.task import Clock
from afkak.client import KafkaClient

attempts = []
class EP(object):
    def __init__(self, reactor, host, port):
        self.host = host
    def connect(self, factory):
        d = Deferred()
        attempts.append((self.host, d))
        return d

client = KafkaClient("h1:9092,h2:9092", reactor=Clock(), endpoint_factory=EP, enable_protocol_version_discovery=False)
res = []
client.load_metadata_for_topics("t").addBoth(res.append)
assert len(attempts) == 1, attempts
client.close()
attempts[0][1].errback(ConnectionRefusedError())      # first host refuses after close()
print("connection attempts:", [h for h, d in attempts], "| pending operation resolved:", bool(res))
sys.exit(0 if len(attempts) == 1 and res else 1)

"""F18 (C19): Producer.stop() with a batch in flight can schedule a retry that is transmitted after stop().

The real client answers a cancelled produce request with FailedPayloadsError (the cancelled broker requests become
failed payloads).  The producer's response handler treats that as retriable, so - unfixed - cancelling the in-flight
batch from stop() arms the retry timer, and the retry is transmitted after stop() has returned.

exit 0: exactly one produce request was handed to the client, none after stop().
"""
import os
import sys

sys.path.insert(0, os.getcwd())

from unittest.mock import Mock  # noqa: E402

from afkak.common import FailedPayloadsError  # noqa: E402
from afkak.producer import Producer  # noqa: E402
from twisted.internet.defer import CancelledError, Deferred  # noqa: E402
from twisted.internet.task import Clock  # noqa: E402
from twisted.python.failure import Failure  # noqa: E402

clock = Clock()
client = Mock(reactor=clock)
client._api_versions = 0
client.topic_partitions = {"t": [0]}
client.metadata_error_for_topic.return_value = 0
sent = []


def send_produce_request(payloads, **kw):
    # like KafkaClient._send_broker_aware_request: cancelling the returned Deferred makes it fail with
    # FailedPayloadsError listing every payload whose broker request was cancelled
    sent.append(list(payloads))

    def canceller(d):
        d.errback(FailedPayloadsError([], [(p, Failure(CancelledError())) for p in payloads]))
    return Deferred(canceller)


client.send_produce_request.side_effect = send_produce_request
p = Producer(client, max_req_attempts=5)
results = []
d = p.send_messages("t", msgs=[b"m"])
d.addBoth(results.append)
assert len(sent) == 1, sent
p.stop()
clock.advance(60)
print("produce requests handed to the client:", len(sent), "caller result:", results)
if len(sent) != 1:
    print("PROPERTY VIOLATED: %d produce request(s) transmitted after stop()" % (len(sent) - 1))
    sys.exit(1)
if not results or not isinstance(results[0], Failure):
    print("PROPERTY VIOLATED: the outstanding send was not failed by stop(): %r" % (results,))
    sys.exit(1)
print("ok")

"""Demonstration for finding F11 (C19.R4), run with /venv/bin/python.

A batch is in flight, the queue already meets the count threshold, then
stop() is called.  stop() must transmit nothing further; before the fix,
cancelling the in-flight batch re-ran the threshold test and the queued batch
was handed to the client *during* stop().
"""
import sys
from unittest.mock import Mock
from twisted.internet.defer import Deferred
from twisted.internet.task import Clock
from afkak.producer import Producer

clock = Clock()
client = Mock(reactor=clock)
client.topic_partitions = {"t": [0]}
client.metadata_error_for_topic.return_value = 0
client._api_versions = 0
sent = []
def send(payloads, **kw):
    sent.append(payloads)
    return Deferred()
client.send_produce_request.side_effect = send
p = Producer(client, batch_send=True, batch_every_n=2, batch_every_b=0, batch_every_t=0)
results = []
for m in (b"a1", b"a2"):
    p.send_messages("t", msgs=[m]).addBoth(results.append)
assert len(sent) == 1, sent                      # first batch in flight
for m in (b"b1", b"b2"):
    p.send_messages("t", msgs=[m]).addBoth(results.append)
assert len(sent) == 1                            # second batch queued behind it
p.stop()
print("scenario 1: produce requests handed to the client:", len(sent), "| sends resolved:", len(results))
ok1 = len(sent) == 1 and len(results) == 4

# Scenario 2: the batch is still resolving partitions (topic "u" needs a
# metadata load, topic "t" is known) when stop() is called.  Cancelling the
# batch makes the lookup list fire with a mix of results; before the fix the
# messages for "t" were transmitted during stop().
clock = Clock()
client = Mock(reactor=clock)
client.topic_partitions = {"t": [0]}
client.metadata_error_for_topic.side_effect = lambda topic: 0 if topic == "t" else 3
client.load_metadata_for_topics.side_effect = lambda *a: Deferred()
client._api_versions = 0
sent2 = []
client.send_produce_request.side_effect = lambda payloads, **kw: (sent2.append(payloads), Deferred())[1]
p = Producer(client, batch_send=True, batch_every_n=2, batch_every_b=0, batch_every_t=0)
res2 = []
p.send_messages("t", msgs=[b"x"]).addBoth(res2.append)
p.send_messages("u", msgs=[b"y"]).addBoth(res2.append)
assert sent2 == []                               # still looking up partitions for "u"
p.stop()
print("scenario 2: produce requests handed to the client during stop():", len(sent2), "| sends resolved:", len(res2))
ok2 = len(sent2) == 0 and len(res2) == 2
sys.exit(0 if ok1 and ok2 else 1)

"""Demonstration for findings F5b (C04.R1) and F7 (C05.R1), run with /venv/bin/python.

F5b: the ApiVersions v0 request has an empty body; afkak appended a stray INT32.
F7:  the ApiVersions v0 response is  correlation_id:INT32 error_code:INT16
     [api_key:INT16 min:INT16 max:INT16] (INT32 count).  afkak read the error
     code as 32 bits and then re-based by two bytes, so for a response encoded
     by an independent encoder the decoded values were wrong.
"""
import struct, sys
from afkak.kafkacodec import KafkaCodec
from afkak.common import ApiVersionRequest, ApiVersion

req = KafkaCodec.encode_api_versions_request(b"cid", 7, ApiVersionRequest(KafkaCodec.API_VERSIONS_KEY, 0))
expected_req = struct.pack(">hhih", 18, 0, 7, 3) + b"cid"
print("request bytes ok:", req == expected_req, "(%d bytes, expected %d)" % (len(req), len(expected_req)))

entries = [(0, 0, 7), (1, 0, 11), (18, 0, 3)]
resp = struct.pack(">ihi", 7, 35, len(entries)) + b"".join(struct.pack(">hhh", *e) for e in entries)
dec = KafkaCodec.decode_api_versions_response(resp)
want = [ApiVersion(*e) for e in entries]
print("decoded error_code:", dec.error_code, "(encoded 35); versions ok:", list(dec.api_versions) == want)
sys.exit(0 if req == expected_req and dec.error_code == 35 and list(dec.api_versions) == want else 1)

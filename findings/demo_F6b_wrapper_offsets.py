"""Demonstration for finding F6b (C02.R8 / C05.R5), run with /venv/bin/python.

A format-1 (magic 1) gzip wrapper stored by the broker at offset 102 holds three
inner messages with relative offsets 0,1,2.  The protocol defines their absolute
offsets as 100,101,102.  Before the fix afkak yielded 0,1,2.
"""
import struct, sys
from afkak.kafkacodec import KafkaCodec
from afkak.common import Message, CODEC_GZIP
from afkak.codec import gzip_encode

inner = [Message(1, 0, None, b"a", 1), Message(1, 0, None, b"b", 2), Message(1, 0, None, b"c", 3)]
inner_set = KafkaCodec._encode_message_set(inner, offset=0)        # relative offsets 0,1,2
wrapper = Message(1, CODEC_GZIP, None, gzip_encode(inner_set), 3)
enc = KafkaCodec._encode_message(wrapper)
data = struct.pack(">qi", 102, len(enc)) + enc                     # wrapper at absolute offset 102
got = [om.offset for om in KafkaCodec._decode_message_set_iter(data)]
print("decoded offsets:", got)
sys.exit(0 if got == [100, 101, 102] else 1)

"""F22 (C01): acknowledgements disabled, two partitions in one batch, one broker write fails.

The client raises FailedPayloadsError([], [(payload_p1, failure)]): partition 0 was handed to its connection,
partition 1 was not.  With acks=0 there is no response object for partition 0, so - unfixed - its send Deferred is
fired only if a later retry of partition 1 succeeds; when partition 1 runs out of attempts only partition 1 is failed
and the Deferred of the (written) partition-0 send never fires.

exit 0: the partition-0 send succeeds with None as soon as the partial failure is reported, the partition-1 send fails
once, after the attempts ran out.
"""
import os
import sys

sys.path.insert(0, os.getcwd())

from unittest.mock import Mock  # noqa: E402

from afkak.common import PRODUCER_ACK_NOT_REQUIRED, FailedPayloadsError  # noqa: E402
from afkak.producer import Producer  # noqa: E402
from twisted.internet.defer import fail  # noqa: E402
from twisted.internet.task import Clock  # noqa: E402
from twisted.python.failure import Failure  # noqa: E402

clock = Clock()
client = Mock(reactor=clock)
client._api_versions = 0
client.topic_partitions = {"t": [0, 1]}
client.metadata_error_for_topic.return_value = 0
attempts = []


def send_produce_request(payloads, **kw):
    attempts.append(sorted(p.partition for p in payloads))
    bad = [p for p in payloads if p.partition == 1]
    return fail(FailedPayloadsError([], [(p, Failure(ConnectionRefusedError("broker 2 down"))) for p in bad]))


client.send_produce_request.side_effect = send_produce_request
prod = Producer(client, req_acks=PRODUCER_ACK_NOT_REQUIRED, max_req_attempts=3, batch_send=True, batch_every_n=2, batch_every_t=0)
res0, res1 = [], []
prod.send_messages("t", key=None, msgs=[b"a"]).addBoth(res0.append)   # round robin: partition 0
prod.send_messages("t", key=None, msgs=[b"b"]).addBoth(res1.append)   # partition 1 -> batch of 2 dispatched
for _ in range(10):
    clock.advance(30)
print("attempts:", attempts, "| partition 0 send:", res0, "| partition 1 send:", [type(r).__name__ for r in res1])
bad = []
if res0 != [None]:
    bad.append("the partition-0 send (handed to its connection in attempt 1) %s" % ("never fired" if not res0 else "got %r" % res0))
if len(res1) != 1 or not isinstance(res1[0], Failure):
    bad.append("the partition-1 send did not fail exactly once: %r" % res1)
if any(0 in a for a in attempts[1:]):
    bad.append("partition 0 was re-sent")
if bad:
    print("PROPERTY VIOLATED: " + "; ".join(bad))
    sys.exit(1)
print("ok")

#!/usr/bin/env python
"""
An offset reply the consumer cannot use (real KafkaClient, fake broker connection).

start(OFFSET_EARLIEST) first asks the broker for the earliest offset.  The broker answers, without an error code, with
an EMPTY list of offsets for the partition (the wire format allows it: an INT32 count of zero).  The handler of the
reply raises (IndexError on `offsets[0]`).  Whatever one calls that - a failed offset request, or an unrecoverable
error - the consumer must react: retry the offset request after its back-off, or fail the Deferred returned by
start().  The script checks that, after the reply, one of the two happens however far the clock advances; and that a
following *good* reply still gets the consumer fetching.

Exit status 0: holds.  Non-zero: violated (the consumer sits idle for ever: no request, no timer, start() unfired).
"""
import os
import signal
import struct
import sys

sys.path.insert(0, os.environ.get("AFKAK_SRC", "/repo"))
sys.path.insert(0, os.path.dirname(os.path.abspath(__file__)))

from _realclient import FETCH, PART, TOPIC, World, _short  # noqa: E402
from afkak.common import OFFSET_EARLIEST  # noqa: E402
from afkak.kafkacodec import KafkaCodec  # noqa: E402

signal.alarm(20)
OFFSET = KafkaCodec.OFFSET_KEY


def offset_reply(corr, offsets):
    return (struct.pack(">ii", corr, 1) + _short(TOPIC) + struct.pack(">i", 1) + struct.pack(">ihi", PART, 0, len(offsets))
            + b"".join(struct.pack(">q", o) for o in offsets))


def main():
    w = World()
    results, problems = [], []
    w.consumer.start(OFFSET_EARLIEST).addBoth(results.append)
    ((corr, d),) = w.broker.pending(OFFSET)
    d.callback(offset_reply(corr, []))
    retried = []
    for _ in range(400):  # up to 100 s: well past any back-off
        w.clock.advance(0.25)
        retried = w.broker.pending(OFFSET)
        if retried or results:
            break
    if not results and not retried:
        problems.append("after an offset reply without offsets: no new offset request, no timer (%r), start() Deferred unfired - "
                        "the consumer is idle for good" % (w.clock.getDelayedCalls(),))
    if retried and not results:
        ((corr, d),) = retried
        d.callback(offset_reply(corr, [7]))
        fetches = w.broker.pending(FETCH)
        if len(fetches) != 1:
            problems.append("a good offset reply after the retry did not start fetching: %r" % (fetches,))
    for p in problems:
        print("VIOLATION: " + p)
    print("OK" if not problems else "FAIL")
    return 1 if problems else 0


if __name__ == "__main__":
    sys.exit(main())

"""Demonstration for finding F37 (C08.R1), run with /venv/bin/python.

A metadata response names, for one partition, a leader id that its own broker
list does not contain (a broker that has just gone away); the other topic in the
same response is perfectly ordinary.  "After each metadata response the client's
view of the covered topics equals what the response said": the merge indexed the
broker list with the unknown id, raised KeyError half-way - the topic being merged
was left half-filled and unsorted, every topic after it was skipped, and the load
failed as "unavailable".
"""
import sys
from twisted.internet.task import Clock
from afkak.client import KafkaClient
from afkak.common import BrokerMetadata, PartitionMetadata, TopicMetadata, TopicAndPartition

client = KafkaClient("boot:9092", reactor=Clock(), enable_protocol_version_discovery=False)
brokers = {1: BrokerMetadata(1, "b1", 9092)}
topics = {
    "a": TopicMetadata("a", 0, {1: PartitionMetadata("a", 1, 0, 1, (1,), (1,)), 0: PartitionMetadata("a", 0, 0, 7, (7,), (7,))}),
    "b": TopicMetadata("b", 0, {0: PartitionMetadata("b", 0, 0, 1, (1,), (1,))}),
}
try:
    client._merge_topic_metadata(brokers, topics, fetched_all_topics=False)
    raised = None
except Exception as e:
    raised = "%s: %s" % (type(e).__name__, e)
print("merge raised:", raised, "| partitions of a:", client.topic_partitions.get("a"), "| b known:", "b" in client.topic_partitions,
      "| leader of a/0:", client.topics_to_brokers.get(TopicAndPartition("a", 0), "<missing>"))
ok = raised is None and client.topic_partitions.get("a") == [0, 1] and client.topic_partitions.get("b") == [0] and \
    client.topics_to_brokers.get(TopicAndPartition("a", 0), "<missing>") is None
sys.exit(0 if ok else 1)

"""Demonstration for finding F26 (C20.R7), run with /venv/bin/python.

Three operations are in progress when close() is called:
  a) a metadata load whose bootstrap connection attempt has not completed,
  b) a metadata load whose request has been written to a bootstrap connection
     and is waiting for the reply,
  c) _load_topic_partitions() waiting out its back-off timer.
"After close, every request in progress fails at once": before the fix none of
the three failed at close() - (a) and (b) waited for the connection / the reply
(or the timeout), with the bootstrap connection left open, and (c) for the timer.
"""
import struct
import sys
from twisted.internet.defer import Deferred
from twisted.internet.task import Clock
from twisted.test.proto_helpers import StringTransport
from afkak.client import KafkaClient
from afkak.kafkacodec import KafkaCodec  # noqa


def make(n_hosts="h1:9092"):
    attempts = []

    class EP(object):
        def __init__(self, reactor, host, port):
            self.host = host

        def connect(self, factory):
            d = Deferred()
            attempts.append((self.host, d, factory))
            return d

    clock = Clock()
    return KafkaClient(n_hosts, reactor=clock, endpoint_factory=EP, enable_protocol_version_discovery=False), attempts, clock


bad = []

# a) connection attempt pending
client, attempts, clock = make()
res = []
client.load_metadata_for_topics("t").addBoth(res.append)
assert len(attempts) == 1 and not res
client.close()
print("a) connect pending at close: operation resolved at close =", bool(res))
if not res:
    bad.append("a")

# b) request written, reply pending
client, attempts, clock = make()
res = []
client.load_metadata_for_topics("t").addBoth(res.append)
host, d, factory = attempts[0]
proto = factory.buildProtocol(None)
tr = StringTransport()
proto.makeConnection(tr)
d.callback(proto)
assert tr.value() and not res
client.close()
print("b) reply pending at close: operation resolved at close =", bool(res), "| bootstrap connection told to close =", tr.disconnecting)
if not res or not tr.disconnecting:
    bad.append("b")

# c) back-off timer of _load_topic_partitions pending
client, attempts, clock = make()
res = []
client._load_topic_partitions("t").addBoth(res.append)
host, d, factory = attempts[0]
proto = factory.buildProtocol(None)
tr = StringTransport()
proto.makeConnection(tr)
d.callback(proto)
req = tr.value()
corr = req[8:12]
# metadata reply: no brokers, topic "t" with error 5 (leader not available) and no partitions
body = struct.pack(">i", 0) + struct.pack(">i", 1) + struct.pack(">h", 5) + struct.pack(">h", 1) + b"t" + struct.pack(">i", 0)
frame = corr + body
proto.dataReceived(struct.pack(">i", len(frame)) + frame)
assert not res and clock.getDelayedCalls(), (res, clock.getDelayedCalls())
client.close()
print("c) back-off wait pending at close: operation resolved at close =", bool(res), "| timers left =", len(clock.getDelayedCalls()))
if not res or clock.getDelayedCalls():
    bad.append("c")

sys.exit(1 if bad else 0)

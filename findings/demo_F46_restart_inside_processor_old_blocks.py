#!/usr/bin/env python
"""
A processor that restarts its consumer from inside its own invocation: consumer.stop(); consumer.start(100).

The reply being worked through (offsets 10..15, handed out in blocks of two because of auto_commit_every_n=2) belongs to
the run that stop() ended.  After the restart - "a restart requested by the application", the one permitted
discontinuity - the processor must see offsets from 100 on and nothing else, and never be invoked while the result of
its previous invocation is still pending.  The script checks the sequence of invocations.

Exit status 0: holds.  Non-zero: violated (the old reply's remaining blocks are delivered into the new run, and the new
run's first reply is delivered while the invocation that restarted the consumer is still pending).
"""
import os
import signal
import sys
from unittest.mock import Mock

sys.path.insert(0, os.environ.get("AFKAK_SRC", "/repo"))

from twisted.internet.defer import Deferred  # noqa: E402
from twisted.internet.testing import MemoryReactorClock  # noqa: E402

from afkak.common import FetchResponse  # noqa: E402
from afkak.consumer import Consumer  # noqa: E402
from afkak.kafkacodec import KafkaCodec, create_message  # noqa: E402

signal.alarm(20)


def main():
    clock = MemoryReactorClock()
    client = Mock(reactor=clock)
    reqs = []

    def send_fetch_request(payloads, **kw):
        d = Deferred()
        reqs.append((payloads[0], d))
        return d

    client.send_fetch_request.side_effect = send_fetch_request
    client.send_offset_commit_request.side_effect = lambda *a, **k: Deferred()
    calls, results, problems = [], [], []

    def proc(consumer, msgs):
        offsets = [m.offset for m in msgs]
        unresolved = [(o, d) for o, d in results if not d.called]
        if unresolved:
            problems.append("processor invoked with %r while the result of its invocation with %r is still pending" % (offsets, unresolved[-1][0]))
        calls.append(offsets)
        if offsets[0] == 10:
            consumer.stop()
            consumer.start(100)
        d = Deferred()
        results.append((offsets, d))
        return d

    c = Consumer(client, "t", 0, proc, "grp", auto_commit_every_n=2, auto_commit_every_ms=0)
    c.start(10)

    def reply(i, first, n):
        ms = KafkaCodec._encode_message_set([create_message(b"v%d" % (first + k)) for k in range(n)], first)
        reqs[i][1].callback([FetchResponse("t", 0, 0, 1000, KafkaCodec._decode_message_set_iter(ms))])

    reply(0, 10, 6)
    clock.advance(0)
    if len(reqs) < 2 or reqs[1][0].offset != 100:
        problems.append("no fetch from the restart position: %r" % [(r.offset) for r, d in reqs])
    else:
        reply(1, 100, 2)
    for _ in range(6):  # let every invocation made so far complete, one after the other
        for o, d in list(results):
            if not d.called:
                d.callback(None)
        clock.advance(0)
    stale = [o for o in calls[1:] if o[0] < 100]
    if stale:
        problems.append("blocks of the reply of the run that was stopped were delivered after the restart: %r (all invocations: %r)" % (stale, calls))
    if [100, 101] not in calls:
        problems.append("the restarted run never delivered its first reply: %r" % (calls,))
    for p in problems:
        print("VIOLATION: " + p)
    print("OK" if not problems else "FAIL")
    return 1 if problems else 0


if __name__ == "__main__":
    sys.exit(main())

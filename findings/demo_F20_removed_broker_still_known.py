"""F20 (C08): a broker that is missing from a full metadata refresh stays in the client's broker table.

_update_brokers(remove=True) closed the broker client of a vanished broker but only ever *added* to self._brokers.
Broker-agnostic requests iterate self._brokers, so - unfixed - the next metadata request re-creates a client for the
decommissioned broker and dials its old address.

exit 0: after a full refresh listing brokers {1}, the table is {1} and no client for broker 2 is re-created.
"""
import os
import sys

sys.path.insert(0, os.getcwd())

from afkak.client import KafkaClient  # noqa: E402
from afkak.common import BrokerMetadata  # noqa: E402
from twisted.internet.task import Clock  # noqa: E402

dialled = []


class Endpoint(object):
    def __init__(self, reactor, host, port):
        self.host = host

    def connect(self, factory):
        from twisted.internet.defer import Deferred
        dialled.append(self.host)
        return Deferred()


client = KafkaClient("boot:9092", reactor=Clock(), endpoint_factory=Endpoint, enable_protocol_version_discovery=False)
client._update_brokers([BrokerMetadata(1, "k1", 9092), BrokerMetadata(2, "k2", 9092)], remove=True)
client._get_brokerclient(2)
client._update_brokers([BrokerMetadata(1, "k1", 9092)], remove=True)  # full refresh without broker 2
print("clients:", sorted(client.clients), "broker table:", sorted(client._brokers))
bad = []
if sorted(client._brokers) != [1]:
    bad.append("broker table still lists %s after a full refresh naming only broker 1" % sorted(client._brokers))
client.load_metadata_for_topics("t")  # broker-agnostic request: tries every known broker
if "k2" in dialled:
    bad.append("the metadata request dialled the vanished broker k2")
if bad:
    print("PROPERTY VIOLATED: " + "; ".join(bad))
    sys.exit(1)
print("ok")

"""Demonstration for finding F8 (C12.R4), run with /venv/bin/python.

A 31-byte OffsetFetch response claims 2**31-1 partitions and carries a metadata
string of length -16.  The primitive reader accepted lengths < -1 and moved the
cursor *backwards*, so every iteration of the count-driven loop consumed net 0
bytes: decoding did not terminate in time proportional to the input.
"""
import itertools, struct, sys
from afkak.kafkacodec import KafkaCodec
from afkak._util import read_int_string, read_short_bytes

print("read_int_string(length=-16):", end=" ")
try:
    print(read_int_string(struct.pack(">i", -16) + b"x" * 8, 0))
    ok_prim = False
except Exception as e:
    print("raises", type(e).__name__)
    ok_prim = True

data = struct.pack(">ii", 1, 1) + struct.pack(">h", 1) + b"t" + struct.pack(">i", 2**31 - 1)
data += struct.pack(">iq", 0, 5) + struct.pack(">h", -16) + struct.pack(">h", 0)
print("response length:", len(data))
n = 0
try:
    for resp in itertools.islice(KafkaCodec.decode_offset_fetch_response(data), 100000):
        n += 1
    ended = "still yielding after %d responses" % n
    ok = False
except Exception as e:
    ended = "raised %s after %d responses" % (type(e).__name__, n)
    ok = n <= len(data)
print(ended)
sys.exit(0 if ok and ok_prim else 1)

"""Demonstration for finding F10 (C16.R6), run with /venv/bin/python.

A member that already has a member id rejoins; while it waits for its partition
consumers to shut down (on_join_prepare) the application calls stop(), which
sends LeaveGroup.  When the prepare step then completes, the join routine must
not issue any further group request; before the fix it sent JoinGroup after
the LeaveGroup.
"""
import sys
from unittest.mock import Mock
from twisted.internet.defer import Deferred, succeed
from twisted.internet.task import Clock
from afkak._group import Coordinator
from afkak.common import BrokerMetadata

clock = Clock()
client = Mock(reactor=clock)
client._get_coordinator_for_group.side_effect = lambda g: succeed(BrokerMetadata(1, "h", 9092))
client.load_metadata_for_topics.side_effect = lambda *t: succeed(True)
sent = []
def srtc(group, payload, encoder_fn, decode_fn, **kw):
    sent.append(encoder_fn.__name__)
    return Deferred()
client._send_request_to_coordinator.side_effect = srtc
prepare = Deferred()
class C(Coordinator):
    def on_join_prepare(self):
        return prepare
c = C(client, "g", ["t"])
c.member_id = "m1"          # member of an earlier generation, now rejoining
c.start()
assert sent == [], sent     # waiting for the consumers to shut down
c.stop()                    # application stops the member: LeaveGroup goes out
assert sent == ["encode_leave_group_request"], sent
prepare.callback(None)      # the shutdown of the consumers completes
print("group requests in order:", sent)
sys.exit(0 if sent == ["encode_leave_group_request"] else 1)

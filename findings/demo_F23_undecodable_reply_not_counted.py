"""F23 (C14): a fetch reply that fails to decode is not counted as a failed attempt.

The messages of a fetch reply are decoded lazily, while the consumer iterates them.  _handle_fetch_response reset the
retry delay and the attempt counter at its very top, *before* that iteration: a reply whose message set raises (bad
checksum) reached the error handler with the counters freshly reset, so - unfixed - the attempt limit was never
reached and the delay never grew.

exit 0: with request_retry_max_attempts=3 the start() Deferred fails after at most 3 consecutive failed attempts.
"""
import os
import sys

sys.path.insert(0, os.getcwd())

from unittest.mock import Mock  # noqa: E402

from afkak.common import ChecksumError, FetchResponse  # noqa: E402
from afkak.consumer import Consumer  # noqa: E402
from twisted.internet.defer import succeed  # noqa: E402
from twisted.internet.task import Clock  # noqa: E402

clock = Clock()
client = Mock(reactor=clock)
fetches = []


def corrupt():
    raise ChecksumError("Message checksum failed")
    yield  # pragma: no cover


def send_fetch_request(*a, **k):
    fetches.append(clock.seconds())
    return succeed([FetchResponse("topic", 0, 0, 10, corrupt())])


client.send_fetch_request.side_effect = send_fetch_request
c = Consumer(client, "topic", 0, lambda consumer, msgs: None, request_retry_max_attempts=3)
results = []
c.start(0).addBoth(results.append)
for _ in range(60):
    clock.advance(c.retry_max_delay + 1)
    if results:
        break
print("fetch attempts:", len(fetches), "| start() result:", results)
if not results:
    print("PROPERTY VIOLATED: %d consecutive failed attempts with request_retry_max_attempts=3 and start() still pending" % len(fetches))
    sys.exit(1)
if len(fetches) > 3:
    print("PROPERTY VIOLATED: %d attempts were made with a limit of 3" % len(fetches))
    sys.exit(1)
print("ok")

"""Demonstration for finding F6a (C05.R2), run with /venv/bin/python.

Encoding a format-1 message with timestamp 1234 and decoding it must give the
same Message.  afkak bound the 1-tuple returned by relative_unpack to the
timestamp, so the decoded message carried (1234,) and could not be re-encoded.
"""
import struct, sys
from afkak.kafkacodec import KafkaCodec
from afkak.common import Message

m = Message(1, 0, b"k", b"v", 1234)
enc = KafkaCodec._encode_message(m)
data = struct.pack(">qi", 5, len(enc)) + enc
[om] = list(KafkaCodec._decode_message_set_iter(data))
print("decoded timestamp:", repr(om.message.timestamp))
sys.exit(0 if om.message == m and om.offset == 5 else 1)

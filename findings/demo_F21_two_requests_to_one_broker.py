"""F21 (C07): one request per broker.

_send_broker_aware_request grouped payloads under the whole BrokerMetadata tuple (node id, host, port).  Leaders are
looked up one payload at a time, and a lookup may reload the metadata.  If that reload reports a new address for a
node which an earlier payload already resolved, the same node sits under two keys and - unfixed - gets two requests.

exit 0: both payloads travel in ONE request to broker 1.
"""
import os
import sys

sys.path.insert(0, os.getcwd())

from unittest.mock import Mock  # noqa: E402

from afkak.client import KafkaClient  # noqa: E402
from afkak.common import BrokerMetadata, OffsetRequest, TopicAndPartition  # noqa: E402
from twisted.internet.defer import Deferred, succeed  # noqa: E402
from twisted.internet.task import Clock  # noqa: E402

client = KafkaClient("boot:9092", reactor=Clock(), enable_protocol_version_discovery=False)
old, new = BrokerMetadata(1, "old", 9092), BrokerMetadata(1, "new", 9092)
client._brokers = {1: old}
client.topics_to_brokers = {TopicAndPartition("A", 0): old}
client.topic_partitions = {"A": [0]}


def reload(*topics):
    # the reload triggered by looking up topic B: node 1 now lives at another address
    client._brokers[1] = new
    client.topics_to_brokers[TopicAndPartition("B", 0)] = new
    client.topic_partitions["B"] = [0]
    return succeed(True)


client.load_metadata_for_topics = reload
requests = []
client._get_brokerclient = lambda node_id: Mock(node_id=node_id)
client._make_request_to_broker = lambda broker, rid, req, **kw: (requests.append((broker.node_id, rid)), Deferred())[1]
d = client._send_broker_aware_request(
    [OffsetRequest("A", 0, -1, 1), OffsetRequest("B", 0, -1, 1)],
    lambda client_id, correlation_id, payloads: b"req%d" % len(payloads), lambda resp: [])
print("requests sent (node id, correlation id):", requests)
if len(requests) != 1:
    print("PROPERTY VIOLATED: %d requests were sent to broker 1 for one call" % len(requests))
    sys.exit(1)
print("ok")

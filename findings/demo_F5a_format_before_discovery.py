"""Demonstration for known finding F5a (C04.R7), run with /venv/bin/python.  NOT fixed.

With version discovery enabled but not yet run (client._api_versions is None)
the producer builds format-1 messages (None != 0).  The client then discovers,
the broker does not answer ApiVersions, and it falls back to version 0: the
request on the wire is Produce v0 carrying magic-1 messages.
Exit status 1 = the defect is present (expected on this tree).
"""
import struct, sys
from unittest.mock import Mock
from twisted.internet.defer import Deferred
from twisted.internet.task import Clock
from afkak.producer import Producer
from afkak.kafkacodec import KafkaCodec

clock = Clock()
client = Mock(reactor=clock)
client.topic_partitions = {"t": [0]}
client.metadata_error_for_topic.return_value = 0
client._api_versions = None                        # discovery enabled, not yet performed
captured = []
client.send_produce_request.side_effect = lambda payloads, **kw: (captured.append(payloads), Deferred())[1]
Producer(client).send_messages("t", msgs=[b"m"])
payloads = captured[0]
# what KafkaClient.send_produce_request does once discovery has fallen back to 0:
wire = KafkaCodec.encode_produce_request(b"c", 1, payloads, acks=1, timeout=1000, api_version=0)
api_key, api_version = struct.unpack(">hh", wire[:4])
magic = payloads[0].messages[0].magic
print("request: api_key=%d api_version=%d ; message magic=%d" % (api_key, api_version, magic))
sys.exit(0 if (api_version == 0) == (magic == 0) else 1)

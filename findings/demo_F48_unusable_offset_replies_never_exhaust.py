#!/usr/bin/env python
"""
Every offset reply is one the consumer cannot use (real KafkaClient, fake broker connection), attempt limit 3.

start(OFFSET_EARLIEST) with request_retry_max_attempts=3.  The broker answers each offset request, without an error code,
with an empty list of offsets; the reply handler raises, the request counts as failed and is retried (F45).  Then the
rest of the retry contract applies: the delays between consecutive failed attempts grow geometrically from the initial
delay, and with the limit set the Deferred returned by start() fails after no more than that many consecutive failures.

Exit status 0: holds.  Non-zero: violated (the handler restores delay and attempt count *before* it takes the reply apart:
each failure looks like the first - the same delay for ever, the limit never reached).
"""
import os
import signal
import struct
import sys

sys.path.insert(0, os.environ.get("AFKAK_SRC", "/repo"))
sys.path.insert(0, os.path.dirname(os.path.abspath(__file__)))

from _realclient import PART, TOPIC, World, _short  # noqa: E402
from afkak.common import OFFSET_EARLIEST  # noqa: E402
from afkak.kafkacodec import KafkaCodec  # noqa: E402

signal.alarm(30)
OFFSET = KafkaCodec.OFFSET_KEY


def offset_reply(corr, offsets):
    return (struct.pack(">ii", corr, 1) + _short(TOPIC) + struct.pack(">i", 1) + struct.pack(">ihi", PART, 0, len(offsets))
            + b"".join(struct.pack(">q", o) for o in offsets))


def main():
    w = World(request_retry_max_attempts=3, request_retry_init_delay=1.0, request_retry_max_delay=30.0)
    results, problems, sent_at = [], [], []
    w.consumer.start(OFFSET_EARLIEST).addBoth(results.append)
    for _ in range(8):  # up to eight attempts, each answered at once with a reply that cannot be used
        pend = w.broker.pending(OFFSET)
        if not pend:
            break
        sent_at.append(w.clock.seconds())
        ((corr, d),) = pend
        d.callback(offset_reply(corr, []))
        for _tick in range(400):  # wait for the retry (or for start() to fail)
            if results or w.broker.pending(OFFSET):
                break
            w.clock.advance(0.05)
        if results:
            break
    gaps = [round(b - a, 2) for a, b in zip(sent_at, sent_at[1:])]
    if not results:
        problems.append("start() has not failed after %d consecutive failed attempts (limit 3); waits between them: %r" % (len(sent_at), gaps))
    elif len(sent_at) > 3:
        problems.append("start() failed only after %d attempts (limit 3)" % len(sent_at))
    if len(gaps) >= 2 and not all(b > a for a, b in zip(gaps, gaps[1:])):
        problems.append("the waits between consecutive failed attempts do not grow: %r" % (gaps,))
    for p in problems:
        print("VIOLATION: " + p)
    print("OK" if not problems else "FAIL")
    return 1 if problems else 0


if __name__ == "__main__":
    sys.exit(main())

"""Demonstration for finding F1 (C01.R1), run with /venv/bin/python.

The broker answers NotLeaderForPartition (errno 6) for the partition on every
attempt.  After max_req_attempts the Deferred returned by send_messages must
FAIL; before the fix it *succeeded* with a NotLeaderForPartitionError object.
"""
import sys
from unittest.mock import Mock
from twisted.internet.defer import succeed
from twisted.internet.task import Clock
from twisted.python.failure import Failure
from afkak.producer import Producer
from afkak.common import ProduceResponse

clock = Clock()
client = Mock(reactor=clock)
client.topic_partitions = {"t": [0]}
client.metadata_error_for_topic.return_value = 0
client._api_versions = 0
client.send_produce_request.side_effect = lambda *a, **k: succeed([ProduceResponse("t", 0, 6, -1)])
p = Producer(client, max_req_attempts=2)
out = []
d = p.send_messages("t", msgs=[b"m"])
d.addCallbacks(lambda r: out.append(("SUCCESS", r)), lambda f: out.append(("FAILURE", f.value)))
for _ in range(5):
    clock.advance(5)
print(out)
sys.exit(0 if out and out[0][0] == "FAILURE" else 1)

"""Demonstration for finding F29 (C14.R6), run with /venv/bin/python.

A consumer configured to retry for ever (request_retry_max_attempts=0, the
default) is shut down gracefully and started again ("a stopped consumer can be
started again").  Its fetches then fail three times in a row.  "Otherwise
retrying continues indefinitely": before the fix shutdown() had overwritten the
configured limit with 2 for good, so the restarted consumer gave up after two
attempts and failed the Deferred returned by start().
"""
import sys
from unittest.mock import Mock
from twisted.internet.defer import fail, Deferred
from twisted.internet.task import Clock
from afkak.consumer import Consumer
from afkak.common import KafkaUnavailableError

clock = Clock()
client = Mock(reactor=clock)
client.send_fetch_request.side_effect = [Deferred()] + [fail(KafkaUnavailableError("down")) for _ in range(3)] + [Deferred()]
c = Consumer(client, "t", 0, lambda cons, block: None, consumer_group="g", auto_commit_every_n=0, auto_commit_every_ms=0)
c.start(0)
sres = []
c.shutdown().addBoth(sres.append)
assert sres == [None], sres
res = []
c.start(0).addCallbacks(lambda r: res.append(("ok", r)), lambda f: res.append(("fail", f.type.__name__)))
for _ in range(6):
    clock.advance(c.retry_max_delay)
print("configured limit: 0 | limit after shutdown():", c.request_retry_max_attempts, "| fetch requests:", client.send_fetch_request.call_count,
      "| start():", res)
ok = not res and client.send_fetch_request.call_count == 5
c.stop()
sys.exit(0 if ok else 1)

"""Demonstration for finding F33 (C14.R7), run with /venv/bin/python.

A fetch reply arrives while the processor is still busy with the previous block
and is parked; when its turn comes its (lazily decoded) message set fails to
decode - a checksum error.  "Failed fetch requests are retried ... with an attempt
limit the start Deferred fails": the parked reply was re-dispatched as a bare
callback of the block Deferred, so the exception ended in that Deferred's chain
and never reached the fetch error handler: no retry, no failure of start(), no
request outstanding - the consumer stalled for good.
"""
import sys
from unittest.mock import Mock
from twisted.internet.defer import succeed, Deferred
from twisted.internet.task import Clock
from afkak.consumer import Consumer
from afkak.common import FetchResponse, OffsetAndMessage, Message, ChecksumError


def corrupt():
    yield OffsetAndMessage(1, Message(0, 0, None, b"m1"))
    raise ChecksumError("Message checksum failed")


clock = Clock()
client = Mock(reactor=clock)
second = Deferred()
client.send_fetch_request.side_effect = [succeed([FetchResponse("t", 0, 0, 1, iter([OffsetAndMessage(0, Message(0, 0, None, b"m0"))]))]),
                                         second] + [Deferred() for _ in range(5)]
proc_ds = []


def processor(cons, block):
    d = Deferred()
    proc_ds.append(d)
    return d


c = Consumer(client, "t", 0, processor, request_retry_max_attempts=5)
res = []
c.start(0).addBoth(res.append)
clock.advance(0)                      # second fetch goes out while block [0] is being processed
assert client.send_fetch_request.call_count == 2 and len(proc_ds) == 1
second.callback([FetchResponse("t", 0, 0, 3, corrupt())])   # parked behind the processor
proc_ds[0].callback(None)             # block done: the parked reply is decoded now
n_before = client.send_fetch_request.call_count
for _ in range(20):
    clock.advance(c.retry_max_delay)
retried = client.send_fetch_request.call_count > n_before
print("processor calls:", len(proc_ds), "| fetch retried after the decode failure:", retried, "| start():", res,
      "| request outstanding:", c._request_d is not None, "| timers:", len(clock.getDelayedCalls()))
ok = retried or (len(res) == 1)
c.stop() if c._start_d is not None else None
sys.exit(0 if ok else 1)

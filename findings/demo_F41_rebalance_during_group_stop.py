#!/usr/bin/env python
"""
A rebalance that completes while ConsumerGroup.stop() is waiting for its consumers.

ConsumerGroup.stop() first shuts the partition consumers of the current generation down (which waits for their commits)
and only then stops the coordinator part (which raises `_stopping`, cancels heartbeats and timers and sends the leave).
While it waits the member still heartbeats.  A heartbeat answered REBALANCE_IN_PROGRESS makes it rejoin: the join
completes, `on_join_complete` starts the consumers of the new generation - and stop() then leaves the group and
reports "[stopped]" with those consumers running.

"No partition consumer outlives its group generation ... after stop no group request other than the leave is issued."

The script drives a real ConsumerGroup / Consumer against a scripted client on task.Clock.  After stop() has completed:
no partition consumer is running, none is registered in group.consumers, and nothing is requested any more however far
the clock advances.

Exit status 0: holds.  Non-zero: violated.
"""
import os
import sys

sys.path.insert(0, os.environ.get("AFKAK_SRC", "/repo"))

import logging

from afkak import ConsumerGroup
from afkak.common import (
    FetchResponse,
    OffsetAndMessage,
    OffsetCommitResponse,
    OffsetFetchResponse,
    _HeartbeatRequest,
    _JoinGroupRequest,
    _JoinGroupResponse,
    _JoinGroupResponseMember,
    _LeaveGroupRequest,
    _LeaveGroupResponse,
    _SyncGroupRequest,
    _SyncGroupResponse,
)
from afkak.kafkacodec import KafkaCodec, create_message
from twisted.internet import defer, task

logging.disable(logging.CRITICAL)

KINDS = {
    _JoinGroupRequest: "join",
    _SyncGroupRequest: "sync",
    _HeartbeatRequest: "heartbeat",
    _LeaveGroupRequest: "leave",
}


class Pending(object):
    def __init__(self, kind, payload, info=None):
        self.kind = kind
        self.payload = payload
        self.info = info or {}
        self.d = defer.Deferred()


class FakeClient(object):
    """Just enough of KafkaClient for Coordinator/ConsumerGroup/Consumer."""

    def __init__(self):
        self.reactor = task.Clock()
        self.sent = []  # every request ever issued, in order

    def _issue(self, kind, payload, **info):
        p = Pending(kind, payload, info)
        self.sent.append(p)
        return p.d

    def take(self, kind):
        """Oldest request of that kind which has not been answered/cancelled"""
        for p in self.sent:
            if p.kind == kind and not p.d.called:
                return p
        raise AssertionError("no pending %r request; sent: %r" % (kind, [q.kind for q in self.sent]))

    def pending(self, kind):
        return [p for p in self.sent if p.kind == kind and not p.d.called]

    # -- group membership
    def _get_coordinator_for_group(self, group):
        self.sent.append(Pending("find_coordinator", group))
        self.sent[-1].d.callback(None)
        return defer.succeed(object())

    def load_metadata_for_topics(self, *topics):
        return defer.succeed(None)

    def _load_topic_partitions(self, *topics):
        return defer.succeed({t: [0, 1] for t in topics})

    def reset_consumer_group_metadata(self, *groups):
        pass

    def _send_request_to_coordinator(self, group, payload, encoder_fn, decode_fn, **kwargs):
        return self._issue(KINDS[type(payload)], payload)

    # -- partition consumers
    def send_offset_fetch_request(self, group, payloads=None, **kw):
        return self._issue("offset_fetch", payloads)

    def send_offset_commit_request(self, group, payloads=None, group_generation_id=-1, consumer_id="", **kw):
        return self._issue("offset_commit", payloads, generation=group_generation_id, member=consumer_id)

    def send_fetch_request(self, payloads=None, **kw):
        return self._issue("fetch", payloads)

    def send_offset_request(self, payloads=None, **kw):
        return self._issue("offset", payloads)


def join_reply(member, leader, generation):
    return _JoinGroupResponse(
        error=0,
        generation_id=generation,
        group_protocol="consumer",
        member_id=member,
        leader_id=leader,
        members=[],
    )


def sync_reply(assignments):
    return _SyncGroupResponse(
        error=0,
        member_assignment=KafkaCodec.encode_sync_group_member_assignment(
            version=0, assignments=assignments, user_data=b""
        ),
    )


def fetch_reply(topic, partition, offsets):
    msgs = [OffsetAndMessage(o, create_message(b"m%d" % o)) for o in offsets]
    return [FetchResponse(topic, partition, 0, offsets[-1] + 1, msgs)]


def running(consumers):
    return [c for c in consumers if c._start_d is not None]



from afkak.common import RebalanceInProgress, _HeartbeatResponse  # noqa: E402


def main():
    client = FakeClient()
    processed = []
    all_consumers = []

    def processor(consumer, messages):
        if consumer not in all_consumers:
            all_consumers.append(consumer)
        processed.extend(m.offset for m in messages)

    group = ConsumerGroup(client, "grp", ["t"], processor, consumer_kwargs=dict(auto_commit_every_n=1000, auto_commit_every_ms=0))
    start_d = group.start()
    start_d.addErrback(lambda f: None)
    client.take("join").d.callback(join_reply("m1", "other", 1))
    client.take("sync").d.callback(sync_reply({"t": [0]}))
    client.take("offset_fetch").d.callback([OffsetFetchResponse("t", 0, 9, b"", 0)])
    client.take("fetch").d.callback(fetch_reply("t", 0, [10, 11, 12]))
    client.reactor.advance(0)
    assert processed == [10, 11, 12], processed

    # the application stops the group: the generation-1 consumer commits 12, the reply is slow
    stop_d = group.stop()
    stop_d.addErrback(lambda f: print("stop() failed:", f))
    assert client.pending("offset_commit"), [p.kind for p in client.sent]
    n_before = len(client.sent)

    # meanwhile the group rebalances: the next heartbeat is answered REBALANCE_IN_PROGRESS ...
    for _ in range(40):
        client.reactor.advance(0.5)
        if client.pending("heartbeat"):
            break
    for p in client.pending("heartbeat"):
        p.d.errback(RebalanceInProgress())
    # ... the member rejoins after its back-off, the exchange completes
    for _ in range(40):
        client.reactor.advance(0.5)
        if client.pending("join"):
            break
    rejoined = bool(client.pending("join"))
    if rejoined:
        client.take("join").d.callback(join_reply("m1", "other", 2))
        if client.pending("sync"):
            client.take("sync").d.callback(sync_reply({"t": [0, 1]}))
    client.reactor.advance(0)
    # the slow commit reply arrives; stop() goes on: leave
    for _ in range(10):
        client.reactor.advance(0)
        todo = [p for p in client.sent if p.kind in ("offset_commit", "leave") and not p.d.called]
        if not todo:
            break
        p = todo[0]
        if p.kind == "leave":
            p.d.callback(_LeaveGroupResponse(0))
        else:
            [req] = p.payload
            p.d.callback([OffsetCommitResponse(req.topic, req.partition, 0)])
    problems = []
    if not stop_d.called:
        problems.append("stop() never completed")
    during = [p.kind for p in client.sent[n_before:]]
    print("requests issued after stop() was called:", during)
    n_after = len(client.sent)
    client.reactor.pump([0.5] * 100)
    late = [p.kind for p in client.sent[n_after:]]
    registered = [c for cs in group.consumers.values() for c in cs]
    alive = [c for c in set(all_consumers) | set(registered) if c._start_d is not None]
    if alive or registered:
        problems.append("after stop() completed %d partition consumer(s) are running and %d registered in group.consumers: %r"
                        % (len(alive), len(registered), alive or registered))
    if late:
        problems.append("requests after stop() completed: %r" % (late,))
    if problems:
        print("PROPERTY VIOLATED:")
        for p in problems:
            print(" -", p)
        return 1
    print("ok: nothing outlives stop()" + ("" if rejoined else " (the member did not rejoin while stopping)"))
    return 0


if __name__ == "__main__":
    sys.exit(main())

#!/usr/bin/env python
"""
The group's coordinator was a broker that has since left the cluster (real KafkaClient, fake broker connections).

The client knows brokers 1 and 2 and has cached broker 2 as coordinator of the group.  A full metadata refresh then
lists broker 1 only: the client closes its connection to broker 2 and forgets it.  The next offset commit for the group
must be routed by asking for the coordinator again (a FindCoordinator / GroupCoordinator request to a broker it still
knows) - "a group or offset-commit request goes to the group's coordinator", "the next request re-resolves".

Exit status 0: holds.  Non-zero: violated (the commit fails with a bare KeyError, now and on every later attempt: the
cached coordinator still names the removed broker and nothing ever invalidates it).
"""
import os
import signal
import struct
import sys

sys.path.insert(0, os.environ.get("AFKAK_SRC", "/repo"))
sys.path.insert(0, os.path.dirname(os.path.abspath(__file__)))

from twisted.python.failure import Failure  # noqa: E402

from _realclient import GROUP, PART, TOPIC, FakeBroker, World, _short  # noqa: E402
from afkak.common import BrokerMetadata, OffsetCommitRequest  # noqa: E402
from afkak.kafkacodec import KafkaCodec  # noqa: E402

signal.alarm(20)
METADATA, FIND_COORDINATOR = KafkaCodec.METADATA_KEY, KafkaCodec.CONSUMER_METADATA_KEY


def metadata_reply(corr, brokers, leader):
    out = struct.pack(">ii", corr, len(brokers))
    for node_id, host, port in brokers:
        out += struct.pack(">i", node_id) + _short(host) + struct.pack(">i", port)
    out += struct.pack(">i", 1) + struct.pack(">h", 0) + _short(TOPIC) + struct.pack(">i", 1)
    out += struct.pack(">hii", 0, PART, leader) + struct.pack(">ii", 1, leader) + struct.pack(">ii", 1, leader)
    return out


def main():
    w = World()
    problems = []
    bm2 = BrokerMetadata(2, "kafka2.invalid", 9092)
    b2 = FakeBroker()
    w.client._brokers[2] = bm2
    w.client.clients[2] = b2
    w.client._group_to_coordinator[GROUP] = bm2  # what an earlier lookup had answered
    # a full refresh: only broker 1 is left
    w.client.load_metadata_for_topics()
    ((corr, d),) = w.broker.pending(METADATA) or b2.pending(METADATA)
    d.callback(metadata_reply(corr, [(1, "kafka.invalid", 9092)], 1))
    if 2 in w.client.clients or 2 in w.client._brokers:
        problems.append("broker 2 is still known after the full refresh")
    results = []
    w.client.send_offset_commit_request(GROUP, [OffsetCommitRequest(TOPIC, PART, 5, -1, b"")]).addBoth(results.append)
    lookups = w.broker.pending(FIND_COORDINATOR)
    if results and isinstance(results[0], Failure):
        problems.append("the commit failed at once with %s: %s (no coordinator lookup was made: %r)" % (
            results[0].type.__name__, results[0].value, lookups))
    elif not lookups:
        problems.append("no coordinator lookup went to the remaining broker; requests to it: %r" % [k for k, c, d in w.broker.requests])
    for p in problems:
        print("VIOLATION: " + p)
    print("OK" if not problems else "FAIL")
    return 1 if problems else 0


if __name__ == "__main__":
    sys.exit(main())

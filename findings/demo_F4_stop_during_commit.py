"""Demonstration for findings F4a and F4b (C13.R2), run with /venv/bin/python.

F4a: stop() while an *automatic* commit is in flight: the Deferred returned by
     start() must succeed with the last processed offset; before the fix it
     failed with CancelledError.
F4b: stop() while shutdown()'s commit is in flight: before the fix the commit
     failure handler re-entered stop() (AlreadyCancelled raised out of stop())
     and the Deferred returned by shutdown() never fired.
"""
import sys
from unittest.mock import Mock
from twisted.internet.defer import succeed, Deferred
from twisted.internet.task import Clock
from afkak.consumer import Consumer
from afkak.common import FetchResponse, OffsetAndMessage, Message

def make(auto_n):
    clock = Clock()
    client = Mock(reactor=clock)
    client.send_offset_commit_request.side_effect = lambda *a, **k: Deferred()
    msgs = [OffsetAndMessage(0, Message(0, 0, None, b"m0"))]
    client.send_fetch_request.side_effect = [succeed([FetchResponse("t", 0, 0, 1, iter(msgs))]), Deferred(), Deferred()]
    c = Consumer(client, "t", 0, lambda cons, block: None, consumer_group="g",
                 auto_commit_every_n=auto_n, auto_commit_every_ms=0)
    return clock, client, c

ok = True
# --- F4a
clock, client, c = make(1)
res = []
c.start(0).addCallbacks(lambda r: res.append(("ok", r)), lambda f: res.append(("fail", f.type.__name__)))
clock.advance(0)
assert client.send_offset_commit_request.call_count == 1, "auto commit should be in flight"
c.stop()
print("F4a start() result after stop during auto-commit:", res)
ok &= res == [("ok", 0)]
# --- F4b
clock, client, c = make(0)
res, sres = [], []
c.start(0).addCallbacks(lambda r: res.append(("ok", r)), lambda f: res.append(("fail", f.type.__name__)))
clock.advance(0)
c.shutdown().addCallbacks(lambda r: sres.append(("ok", r)), lambda f: sres.append(("fail", f.type.__name__)))
assert client.send_offset_commit_request.call_count == 1, "shutdown commit should be in flight"
try:
    c.stop()
    raised = None
except Exception as e:
    raised = type(e).__name__
print("F4b stop() raised:", raised, "| start():", res, "| shutdown():", sres)
ok &= raised is None and res == [("ok", 0)] and len(sres) == 1
sys.exit(0 if ok else 1)

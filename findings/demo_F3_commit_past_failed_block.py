"""Demonstration for finding F3 (C03.R2), run with /venv/bin/python.

auto_commit_every_n=1, three messages fetched at offsets 0,1,2; the processor
fails on offset 0.  The failure is reported on the start() Deferred, but before
the fix the feeder went on to offsets 1 and 2, recorded last_processed_offset=2
and sent commits past the unprocessed message 0.
"""
import sys
from unittest.mock import Mock
from twisted.internet.defer import succeed, Deferred
from twisted.internet.task import Clock
from afkak.consumer import Consumer
from afkak.common import FetchResponse, OffsetAndMessage, Message

clock = Clock()
client = Mock(reactor=clock)
commits = []
def commit(group, reqs, **kw):
    commits.append(reqs[0].offset)
    return Deferred()
client.send_offset_commit_request.side_effect = commit
msgs = [OffsetAndMessage(i, Message(0, 0, None, b"m%d" % i)) for i in range(3)]
client.send_fetch_request.side_effect = [succeed([FetchResponse("t", 0, 0, 3, iter(msgs))]), Deferred()]
seen = []
def processor(consumer, block):
    seen.extend(m.offset for m in block)
    if block[0].offset == 0:
        raise RuntimeError("cannot process offset 0")
c = Consumer(client, "t", 0, processor, consumer_group="g", auto_commit_every_n=1, auto_commit_every_ms=0)
out = []
c.start(0).addBoth(out.append)
clock.advance(1)
print("processor saw offsets:", seen, "| last_processed_offset:", c.last_processed_offset, "| commits sent:", commits)
ok = seen == [0] and c.last_processed_offset is None and commits == []
sys.exit(0 if ok else 1)

#!/usr/bin/env python
"""
start(OFFSET_COMMITTED) on a consumer that has no consumer group (real KafkaClient, fake broker connection).

There is no committed offset to look up without a group: the Deferred returned by start() fails with
InvalidConsumerGroupError - the unrecoverable error has been reported, the consumer is done.  The script checks that
nothing happens after that: no request is handed to the broker, no timer is left on the clock, and however far the
clock advances nothing tries to fire the start Deferred a second time (AlreadyCalledError out of the reactor).

Exit status 0: holds.  Non-zero: violated.
"""
import os
import signal
import sys

sys.path.insert(0, os.environ.get("AFKAK_SRC", "/repo"))
sys.path.insert(0, os.path.dirname(os.path.abspath(__file__)))

from twisted.python.failure import Failure  # noqa: E402

from _realclient import PART, TOPIC, World  # noqa: E402
from afkak.common import OFFSET_COMMITTED, InvalidConsumerGroupError  # noqa: E402
from afkak.consumer import Consumer  # noqa: E402

signal.alarm(20)


def main():
    w = World()
    consumer = Consumer(w.client, TOPIC, PART, lambda c, m: None, request_retry_max_attempts=3)
    results, problems = [], []
    consumer.start(OFFSET_COMMITTED).addBoth(results.append)
    if len(results) != 1 or not isinstance(results[0], Failure) or not results[0].check(InvalidConsumerGroupError):
        problems.append("start() Deferred: %r (expected one InvalidConsumerGroupError)" % (results,))
    sent = [(k, cid) for k, cid, d in w.broker.requests]
    if sent:
        problems.append("requests (api key, id) handed to the broker although start() had already failed: %r" % (sent,))
    try:
        w.clock.pump([0.5] * 200)
    except Exception as e:  # noqa: BLE001
        problems.append("advancing the clock raised %r" % (e,))
    if w.clock.getDelayedCalls():
        problems.append("timers left: %r" % (w.clock.getDelayedCalls(),))
    if len(results) != 1:
        problems.append("start() Deferred fired %d times" % len(results))
    for p in problems:
        print("VIOLATION: " + p)
    print("OK" if not problems else "FAIL")
    return 1 if problems else 0


if __name__ == "__main__":
    sys.exit(main())

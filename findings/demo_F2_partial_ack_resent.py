"""Demonstration for finding F2 (C09.R4), run with /venv/bin/python.

A produce reply acknowledges partition 0 and reports errno 7 (request timed
out) for partition 1.  With fail_on_error=False the client must hand both
per-partition outcomes to the producer; before the fix it raised, so the
producer treated the reply as a total failure and re-sent the acknowledged
payload of partition 0 as well (duplicate).
"""
import sys
from afkak.client import KafkaClient
from afkak.common import ProduceResponse

c = KafkaClient("localhost:9092", enable_protocol_version_discovery=False)
resps = [ProduceResponse("t", 0, 0, 10), ProduceResponse("t", 1, 7, -1)]
try:
    out = c._handle_responses(resps, fail_on_error=False)
except Exception as e:
    print("raised", type(e).__name__)
    sys.exit(1)
print("returned", out)
sys.exit(0 if out == resps else 1)

#!/usr/bin/env python
"""
The partition snapshot the group leader assigns from must cover every topic it asked about.

KafkaClient._load_topic_partitions(*topics) promises "an entry is present for each requested topic" and retries until
every requested topic has partitions.  The group leader calls it with the topics of its members' subscriptions that it
does not know yet and assigns what comes back ("the leader loads partition lists before assigning").

The script gives the real client a metadata reply that describes only one of the two requested topics (the other one
does not exist yet and this broker leaves it out), then - at the retry - a reply describing both.  It checks that
the first reply did not complete the call, that the retry asked for BOTH topics again, and that the result has an entry
for each of them.

Exit status 0: holds.  Non-zero: violated.
"""
import os
import signal
import struct
import sys

sys.path.insert(0, os.environ.get("AFKAK_SRC", "/repo"))

from twisted.internet.defer import Deferred, succeed  # noqa: E402
from twisted.internet.task import Clock  # noqa: E402
from twisted.python.failure import Failure  # noqa: E402

from afkak.client import KafkaClient  # noqa: E402
from afkak.common import BrokerMetadata  # noqa: E402
from afkak.kafkacodec import KafkaCodec  # noqa: E402

signal.alarm(20)


class FakeBroker(object):
    def __init__(self):
        self.requests = []

    def makeRequest(self, correlationId, request, expectResponse=True):
        (api_key,) = struct.unpack(">h", request[:2])
        d = Deferred()
        self.requests.append((api_key, correlationId, request, d))
        return d

    def updateMetadata(self, metadata):
        pass

    def close(self):
        return succeed(None)

    def disconnect(self):
        pass

    def connected(self):
        return True

    def pending(self):
        return [(c, r, d) for (k, c, r, d) in self.requests if k == KafkaCodec.METADATA_KEY and not d.called]


def _s(text):
    b = text.encode()
    return struct.pack(">h", len(b)) + b


def metadata_reply(corr, topics):
    out = struct.pack(">i", corr)
    out += struct.pack(">i", 1) + struct.pack(">i", 1) + _s("kafka.invalid") + struct.pack(">i", 9092)
    out += struct.pack(">i", len(topics))
    for name, parts in topics:
        out += struct.pack(">h", 0) + _s(name) + struct.pack(">i", len(parts))
        for p in parts:
            out += struct.pack(">hii", 0, p, 1) + struct.pack(">ii", 1, 1) + struct.pack(">ii", 1, 1)
    return out


def requested_topics(request):
    # header: api key, version, correlation id, client id; body: [topic]
    cur = 8
    (n,) = struct.unpack(">h", request[cur:cur + 2])
    cur += 2 + max(n, 0)
    (count,) = struct.unpack(">i", request[cur:cur + 4])
    cur += 4
    names = []
    for _ in range(count):
        (ln,) = struct.unpack(">h", request[cur:cur + 2])
        names.append(request[cur + 2:cur + 2 + ln].decode())
        cur += 2 + ln
    return sorted(names)


def main():
    clock = Clock()
    client = KafkaClient("kafka.invalid:9092", reactor=clock, enable_protocol_version_discovery=False)
    broker = FakeBroker()
    client._brokers[1] = BrokerMetadata(1, "kafka.invalid", 9092)
    client.clients[1] = broker
    result = []
    client._load_topic_partitions("known", "new").addBoth(result.append)
    problems = []
    ((corr, req, d),) = broker.pending()
    if requested_topics(req) != ["known", "new"]:
        problems.append("first request asks for %r" % (requested_topics(req),))
    d.callback(metadata_reply(corr, [("known", [0, 1])]))
    if result:
        problems.append("completed on a reply that does not describe topic 'new': %r" % (result[0],))
    else:
        for _ in range(100):
            clock.advance(0.5)
            if broker.pending():
                break
        pend = broker.pending()
        if not pend:
            problems.append("no retry after a reply that left a requested topic out")
        else:
            corr, req, d = pend[0]
            if requested_topics(req) != ["known", "new"]:
                problems.append("the retry asks for %r, not for both requested topics" % (requested_topics(req),))
            d.callback(metadata_reply(corr, [("known", [0, 1]), ("new", [0])]))
    if result and not isinstance(result[0], Failure) and sorted(result[0]) != ["known", "new"]:
        problems.append("snapshot has entries for %r only" % (sorted(result[0]),))
    if not result:
        problems.append("never completed")
    for p in problems:
        print("VIOLATION: " + p)
    print("OK" if not problems else "FAIL")
    return 1 if problems else 0


if __name__ == "__main__":
    sys.exit(main())

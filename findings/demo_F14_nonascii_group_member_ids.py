"""Demonstration for finding F14 (C04.R1 string kinds), run with /venv/bin/python.

Kafka STRING fields are UTF-8.  afkak writes the group id and the member id as
UTF-8 in JoinGroup/SyncGroup/Heartbeat/LeaveGroup, but as ASCII-only in
OffsetCommit, OffsetFetch and FindCoordinator: with a non-ASCII group id (or a
member id derived from a non-ASCII client id) the member can join the group,
but every coordinator lookup / offset fetch / commit raises UnicodeEncodeError
instead of emitting the request.
"""
import struct, sys
from afkak.kafkacodec import KafkaCodec
from afkak.common import OffsetCommitRequest, OffsetFetchRequest, _HeartbeatRequest

group, member = "grüppe", "cliënt-1"
ok = True
hb = KafkaCodec.encode_heartbeat_request(b"c", 1, _HeartbeatRequest(group, 3, member))
print("heartbeat request encodes:", group.encode("utf-8") in hb)
for name, fn in (
    ("offset commit", lambda: KafkaCodec.encode_offset_commit_request(b"c", 1, group, 3, member, [OffsetCommitRequest("t", 0, 5, -1, None)])),
    ("offset fetch", lambda: KafkaCodec.encode_offset_fetch_request(b"c", 1, group, [OffsetFetchRequest("t", 0)])),
    ("find coordinator", lambda: KafkaCodec.encode_consumermetadata_request(b"c", 1, group)),
):
    try:
        b = fn()
        good = struct.pack(">h", len(group.encode("utf-8"))) + group.encode("utf-8") in b
        print("%s request encodes the group id: %s" % (name, good))
        ok &= good
    except Exception as e:
        print("%s request: raises %s" % (name, type(e).__name__))
        ok = False
sys.exit(0 if ok else 1)

"""F16 (C02 / C03 / C13): stop() with an asynchronous processor result pending and a fetched batch larger than
auto_commit_every_n.

stop() cancels the pending block's Deferred; the feeder generator resumes before stop() has cleared the start
Deferred, and (unfixed) hands the NEXT block to the processor from inside stop().  A processor that completes
synchronously then records that block as processed: last_processed_offset jumps over the cancelled block and the next
commit covers messages that were never processed.

exit 0: the processor is not invoked again and the processed offset stays behind the cancelled block.
"""
import os
import sys

sys.path.insert(0, os.getcwd())

from unittest.mock import Mock  # noqa: E402

from afkak.common import FetchResponse, Message, OffsetAndMessage  # noqa: E402
from afkak.consumer import Consumer  # noqa: E402
from twisted.internet.defer import Deferred, succeed  # noqa: E402
from twisted.internet.task import Clock  # noqa: E402

clock = Clock()
client = Mock(reactor=clock)
fetch_ds = [Deferred()]
client.send_fetch_request.side_effect = lambda *a, **k: fetch_ds[-1]

calls = []
pending = []


def processor(consumer, msgs):
    calls.append([m.offset for m in msgs])
    if len(calls) == 1:
        d = Deferred()  # first block: asynchronous, still pending when stop() is called
        pending.append(d)
        return d
    return succeed(None)  # any later block completes synchronously


client.send_offset_commit_request.side_effect = lambda *a, **k: Deferred()
c = Consumer(client, "topic", 0, processor, consumer_group="grp", auto_commit_every_n=2, auto_commit_every_ms=0)
start_d = c.start(0)
results = []
start_d.addBoth(results.append)
msgs = [OffsetAndMessage(i, Message(0, 0, None, b"v%d" % i)) for i in range(6)]
fetch_ds[-1].callback([FetchResponse("topic", 0, 0, 6, iter(msgs))])
assert calls == [[0, 1]], calls
c.stop()
print("processor calls:", calls, "last processed offset:", c._last_processed_offset, "start() result:", results)
bad = []
if calls != [[0, 1]]:
    bad.append("processor invoked again from inside stop() with %s" % calls[1:])
if c._last_processed_offset is not None:
    bad.append("processed offset %s recorded although block [0, 1] was cancelled: a commit would skip it" % c._last_processed_offset)
if bad:
    print("PROPERTY VIOLATED: " + "; ".join(bad))
    sys.exit(1)
print("ok")

"""F19 (C01 / C19): a send made after Producer.stop() never completes.

send_messages() after stop() queues the request, but nothing is dispatched once `stopping` is set, so - unfixed - the
returned Deferred neither succeeds nor fails.  exit 0: it fails with a cancellation error at once and nothing is sent.
"""
import os
import sys

sys.path.insert(0, os.getcwd())

from unittest.mock import Mock  # noqa: E402

from afkak.common import CancelledError  # noqa: E402
from afkak.producer import Producer  # noqa: E402
from twisted.internet.task import Clock  # noqa: E402
from twisted.python.failure import Failure  # noqa: E402

clock = Clock()
client = Mock(reactor=clock)
client._api_versions = 0
p = Producer(client)
p.stop()
results = []
d = p.send_messages("t", msgs=[b"late"])
d.addBoth(results.append)
clock.advance(120)
print("result of a send after stop():", results, "| produce requests:", client.send_produce_request.call_count)
if not results:
    print("PROPERTY VIOLATED: the Deferred of a send made after stop() never fires")
    sys.exit(1)
if not (isinstance(results[0], Failure) and results[0].check(CancelledError)) or client.send_produce_request.call_count:
    print("PROPERTY VIOLATED: unexpected outcome")
    sys.exit(1)
print("ok")

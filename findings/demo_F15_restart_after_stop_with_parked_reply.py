"""Demonstration for finding F15 (C13.R6 restartable), run with /venv/bin/python.

A fetch reply arrives while the processor is still working on the previous block,
so it is parked behind the block Deferred (the reply's Deferred has fired, the
consumer keeps it in _request_d).  stop() is called in that state.  A stopped
consumer can be started again - but before the fix start() never fetched: the
stale, already-fired _request_d made _do_fetch() return at "outstanding request".
"""
import sys
from unittest.mock import Mock
from twisted.internet.defer import Deferred, succeed
from twisted.internet.task import Clock
from afkak.consumer import Consumer
from afkak.common import FetchResponse, OffsetAndMessage, Message

clock = Clock()
client = Mock(reactor=clock)
def reply(offs):
    return succeed([FetchResponse("t", 0, 0, 100, iter([OffsetAndMessage(o, Message(0, 0, None, b"m")) for o in offs]))])
fetches = []
def send_fetch(reqs, **kw):
    fetches.append(reqs[0].offset)
    if len(fetches) == 1:
        return reply([0])
    if len(fetches) == 2:
        return reply([1])          # arrives while block [0] is still being processed -> parked
    return Deferred()
client.send_fetch_request.side_effect = send_fetch
pending = []
def processor(consumer, block):
    d = Deferred()
    pending.append(d)
    return d
c = Consumer(client, "t", 0, processor)
c.start(0)
clock.advance(0)                   # second fetch goes out, its reply is parked
assert fetches == [0, 1], fetches
c.stop()
n = len(fetches)
c.start(1)                         # restart
clock.advance(0)
print("fetch offsets:", fetches, "| fetches issued by the restart:", len(fetches) - n)
sys.exit(0 if len(fetches) > n else 1)

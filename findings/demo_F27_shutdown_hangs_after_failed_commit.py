"""Demonstration for finding F27 (C13.R5), run with /venv/bin/python.

An automatic commit is in flight and further messages have been processed when
shutdown() is called: commit() answers OperationInProgress and shutdown() waits
for the commit in flight.  That commit then fails.  shutdown() must still
commit what was processed and stop ("graceful shutdown ... commits everything
processed ... and then stops"; its Deferred fires once); before the fix the
continuation was registered for success only, so the Deferred returned by
shutdown() never fired and the consumer never stopped.
"""
import sys
from unittest.mock import Mock
from twisted.internet.defer import succeed, Deferred
from twisted.internet.task import Clock
from afkak.consumer import Consumer
from afkak.common import FetchResponse, OffsetAndMessage, Message, OffsetCommitResponse

clock = Clock()
client = Mock(reactor=clock)
first_commit = Deferred()
client.send_offset_commit_request.side_effect = [first_commit, succeed([OffsetCommitResponse("t", 0, 0)]), Deferred()]
msgs = [OffsetAndMessage(0, Message(0, 0, None, b"m0")), OffsetAndMessage(1, Message(0, 0, None, b"m1"))]
client.send_fetch_request.side_effect = [succeed([FetchResponse("t", 0, 0, 2, iter(msgs))]), Deferred(), Deferred()]
c = Consumer(client, "t", 0, lambda cons, block: None, consumer_group="g", auto_commit_every_n=1, auto_commit_every_ms=0)
res, sres = [], []
c.start(0).addCallbacks(lambda r: res.append(("ok", r)), lambda f: res.append(("fail", f.type.__name__)))
clock.advance(0)
assert client.send_offset_commit_request.call_count == 1 and c.last_processed_offset == 1, (client.send_offset_commit_request.call_count, c.last_processed_offset)
c.shutdown().addCallbacks(lambda r: sres.append(("ok", r)), lambda f: sres.append(("fail", f.type.__name__)))
assert not sres
first_commit.errback(RuntimeError("commit in flight failed"))
clock.advance(0)
print("commit requests:", client.send_offset_commit_request.call_count, "| shutdown():", sres, "| start():", res,
      "| last committed:", c.last_committed_offset)
sys.exit(0 if len(sres) == 1 and len(res) == 1 else 1)
